// Package flow is E1 of DESIGN.md: a path-sensitive predicate / typestate engine over
// go/cfg graphs with go/types resolution.
//
// A program point carries a *set* of abstract states (no merging, so correlations between
// facts are kept); a state is a valuation of fact keys (strings) to True/False (absent =
// unknown). Facts are learned from branch conditions and constant assignments, and killed
// when a variable or field they mention is assigned, when the call they describe is
// evaluated again, or (heap facts) when an impure call is made. Deferred function literals
// are interpreted at every exit, including the panic exits of calls a rule declares
// may-panic. The domain is finite per function, so the worklist terminates.
package flow

import (
	"fmt"
	"go/ast"
	"go/token"
	"go/types"
	"sort"
	"strings"
	"sync"

	"golang.org/x/tools/go/cfg"
	"golang.org/x/tools/go/packages"
	"golang.org/x/tools/go/types/typeutil"
)

// Func is a function body to analyse.
type Func struct {
	Pkg  *packages.Package
	Info *types.Info
	Fset *token.FileSet
	Name string
	Node ast.Node // *ast.FuncDecl or *ast.FuncLit
	Body *ast.BlockStmt
	Type *ast.FuncType
}

// NewFunc wraps a function declaration.
func NewFunc(pkg *packages.Package, fd *ast.FuncDecl) *Func {
	name := fd.Name.Name
	if fd.Recv != nil && len(fd.Recv.List) == 1 {
		name = "(" + types.ExprString(fd.Recv.List[0].Type) + ")." + name
	}
	return &Func{Pkg: pkg, Info: pkg.TypesInfo, Fset: pkg.Fset, Name: pkg.PkgPath + "." + name,
		Node: fd, Body: fd.Body, Type: fd.Type}
}

// Lit wraps a function literal nested in f.
func (f *Func) Lit(lit *ast.FuncLit) *Func {
	p := f.Fset.Position(lit.Pos())
	return &Func{Pkg: f.Pkg, Info: f.Info, Fset: f.Fset, Name: fmt.Sprintf("%s$lit@%d", f.Name, p.Line),
		Node: lit, Body: lit.Body, Type: lit.Type}
}

// Pos renders a position relative to nothing (file base name:line) for witnesses.
func (f *Func) Pos(p token.Pos) string {
	ps := f.Fset.Position(p)
	fn := ps.Filename
	if i := strings.LastIndex(fn, "/pkg/"); i >= 0 {
		fn = fn[i+1:]
	}
	return fmt.Sprintf("%s:%d", fn, ps.Line)
}

// Callee resolves the static callee of a call (function, method, builtin) or nil.
func (f *Func) Callee(call *ast.CallExpr) types.Object {
	direct := typeutil.Callee(f.Info, call)
	if _, isVar := direct.(*types.Var); direct != nil && !isVar {
		return direct
	}
	// a call through a local that holds a method value or a function (`h := x.m; h()`), assigned exactly once
	if rhs := f.FuncValue(call.Fun); rhs != nil {
		switch t := rhs.(type) {
		case *ast.SelectorExpr:
			if sel := f.Info.Selections[t]; sel != nil {
				return sel.Obj()
			}
			return f.Info.Uses[t.Sel]
		case *ast.Ident:
			return f.Info.Uses[t]
		}
	}
	return direct
}

var (
	funcValMu  sync.Mutex
	funcValIdx = map[*types.Info]map[types.Object]ast.Expr{}
)

// FuncValue returns, for an identifier that denotes a local variable assigned exactly once in its package's
// source from a method value (`x.m`), a declared function or a function literal, that right-hand side; nil otherwise.
func (f *Func) FuncValue(x ast.Expr) ast.Expr {
	id, ok := ast.Unparen(x).(*ast.Ident)
	if !ok || f.Pkg == nil {
		return nil
	}
	v, ok := f.objOf(id).(*types.Var)
	if !ok || v.IsField() {
		return nil
	}
	funcValMu.Lock()
	defer funcValMu.Unlock()
	idx := funcValIdx[f.Info]
	if idx == nil {
		idx = map[types.Object]ast.Expr{}
		count := map[types.Object]int{}
		note := func(l ast.Expr, r ast.Expr) {
			lid, ok := l.(*ast.Ident)
			if !ok {
				return
			}
			o := f.objOf(lid)
			if o == nil {
				return
			}
			count[o]++
			if r == nil {
				return
			}
			switch t := ast.Unparen(r).(type) {
			case *ast.SelectorExpr:
				if sel := f.Info.Selections[t]; sel != nil && sel.Kind() == types.MethodVal {
					idx[o] = t
				} else if _, isFunc := f.Info.Uses[t.Sel].(*types.Func); isFunc && sel == nil {
					idx[o] = t
				}
			case *ast.Ident:
				if _, isFunc := f.Info.Uses[t].(*types.Func); isFunc {
					idx[o] = t
				}
			case *ast.FuncLit:
				idx[o] = t // a closure held in a local: `step := func(..) {..}; step(..)`
			}
		}
		for _, file := range f.Pkg.Syntax {
			ast.Inspect(file, func(n ast.Node) bool {
				switch s := n.(type) {
				case *ast.AssignStmt:
					for i, l := range s.Lhs {
						var r ast.Expr
						if len(s.Lhs) == len(s.Rhs) {
							r = s.Rhs[i]
						}
						note(l, r)
					}
				case *ast.ValueSpec:
					for i, name := range s.Names {
						var r ast.Expr
						if len(s.Names) == len(s.Values) {
							r = s.Values[i]
						}
						if len(s.Values) > 0 {
							note(name, r)
						}
					}
				case *ast.RangeStmt:
					if s.Key != nil {
						note(s.Key, nil)
					}
					if s.Value != nil {
						note(s.Value, nil)
					}
				case *ast.IncDecStmt:
					note(s.X, nil)
				}
				return true
			})
		}
		for o, n := range count {
			if n != 1 {
				delete(idx, o)
			}
		}
		funcValIdx[f.Info] = idx
	}
	return idx[v]
}

// Val is a three-valued truth value.
type Val int8

const (
	Unknown Val = iota
	True
	False
)

func (v Val) String() string {
	switch v {
	case True:
		return "T"
	case False:
		return "F"
	}
	return "?"
}

func boolVal(b bool) Val {
	if b {
		return True
	}
	return False
}

// State is one abstract state. States are immutable once published; Clone before Set.
type State struct {
	facts  map[string]Val
	defers []*ast.DeferStmt
	parent *State
	via    string
	key    string
	inner  *ast.ReturnStmt // innermost return of an inlined tail call (not part of the identity)
	eng    *Engine
	dead   bool // declared infeasible by a hook: dropped at the next block boundary / exit
}

// Infeasible lets a hook drop this path: the state (and everything derived from it) is discarded at the next block
// boundary or exit. For paths a rule can prove impossible from its own knowledge.
func (s *State) Infeasible() { s.dead = true }

// Learn records a fact together with the expressions it depends on, so that the engine forgets it when one of the
// variables / fields mentioned is assigned (hooks use it instead of Set for facts about program state).
func (s *State) Learn(key string, v Val, exprs ...ast.Expr) {
	if s.eng != nil {
		s.eng.learn(s, key, v, exprs...)
		return
	}
	s.Set(key, v)
}

// Get returns the value of a fact.
func (s *State) Get(k string) Val { return s.facts[k] }

// Is reports whether fact k has value v.
func (s *State) Is(k string, v Val) bool { return s.facts[k] == v }

// Set sets a fact (Unknown deletes it). Only call on a state obtained from a hook.
func (s *State) Set(k string, v Val) {
	s.key = ""
	if v == Unknown {
		delete(s.facts, k)
		return
	}
	s.facts[k] = v
}

// Facts returns a sorted rendering of the state's facts.
func (s *State) Facts() []string {
	out := make([]string, 0, len(s.facts))
	for k, v := range s.facts {
		out = append(out, k+"="+v.String())
	}
	sort.Strings(out)
	return out
}

// Clone returns a private copy of the state (for rules that fork a state in a hook).
func (s *State) Clone() *State { return s.clone("") }

func (s *State) clone(via string) *State {
	n := &State{facts: make(map[string]Val, len(s.facts)+2), defers: s.defers, parent: s, via: via, inner: s.inner, eng: s.eng, dead: s.dead}
	for k, v := range s.facts {
		n.facts[k] = v
	}
	return n
}

// Key is the canonical identity of the state.
func (s *State) Key() string {
	if s.key != "" {
		return s.key
	}
	var sb strings.Builder
	for _, f := range s.Facts() {
		sb.WriteString(f)
		sb.WriteByte(';')
	}
	for _, d := range s.defers {
		fmt.Fprintf(&sb, "D%d;", d.Pos())
	}
	s.key = sb.String()
	if s.key == "" {
		s.key = ";"
	}
	return s.key
}

// Trace returns the branch decisions that led to this state (a witness path).
func (s *State) Trace() []string {
	var out []string
	for p := s; p != nil; p = p.parent {
		if p.via != "" {
			out = append(out, p.via)
		}
	}
	for i, j := 0, len(out)-1; i < j; i, j = i+1, j-1 {
		out[i], out[j] = out[j], out[i]
	}
	if len(out) > 40 {
		out = append(out[:20], append([]string{"..."}, out[len(out)-19:]...)...)
	}
	return out
}

// Well-known fact keys maintained by the engine.
const (
	Panicking = "engine:panicking" // a panic is propagating
	Recovered = "engine:recovered" // a panic was recovered by a deferred function
)

// ExitKind classifies function exits.
type ExitKind int

const (
	ExitReturn ExitKind = iota // return statement or falling off the end
	ExitPanic                  // panic propagates out of the function
)

// Exit is one exit of the analysed function with the state after deferred functions ran.
type Exit struct {
	Kind   ExitKind
	Return *ast.ReturnStmt // nil for fall-off-the-end and panic exits
	At     ast.Node        // the node that ended the function (return stmt / panicking call)
	State  *State
	// Inner is the innermost return statement of an inlined callee when the function returned
	// `return h(..)` with h interpreted in place (nil otherwise): the expressions that produced
	// the returned values on this path.
	Inner *ast.ReturnStmt
}

// Ret returns the return statement whose expressions produced the returned values: Inner if the
// function returned an inlined call, Return otherwise.
func (x *Exit) Ret() *ast.ReturnStmt {
	if x.Inner != nil {
		return x.Inner
	}
	return x.Return
}

// Config configures one analysis.
type Config struct {
	// Track restricts which fact keys are learned (nil = all). Event facts set by hooks
	// are always kept.
	Track func(key string) bool
	// OnNode is called before the default transfer of every CFG node (the condition
	// expression of a branch included), with a private copy of the state.
	OnNode func(st *State, n ast.Node)
	// OnCall is called for every call expression evaluated, inner calls first.
	// deferred is true when the call is a non-literal deferred call executed at exit.
	OnCall func(st *State, call *ast.CallExpr, callee types.Object, deferred bool)
	// OnBlock is called when a state enters a block.
	OnBlock func(st *State, b *cfg.Block)
	// AfterAssume is called after a branch condition has been assumed with the given
	// outcome (the state already carries the learned facts).
	AfterAssume func(st *State, cond ast.Expr, outcome bool)
	// MayPanic reports whether a call may panic (a panic exit is forked).
	MayPanic func(call *ast.CallExpr, callee types.Object) bool
	// Pure reports whether a call leaves heap facts (fields, indexes) intact.
	// nil = every call havocs heap facts.
	Pure func(call *ast.CallExpr, callee types.Object) bool
	// NoHavoc disables havoc of heap facts on calls altogether.
	NoHavoc bool
	// MaxStates bounds the number of (block,state) pairs (default 400000).
	MaxStates int
	// Inline, when set, is asked for the body of a statically resolved callee; a non-nil answer
	// (a Func of the same package) makes the engine interpret the call in place (see inline.go).
	Inline func(call *ast.CallExpr, callee *types.Func) *Func
	// InlineClosures additionally interprets in place the calls of a closure held in a local that is assigned
	// exactly once (`reject := func(..) {..}; reject(..)`); needs Inline to be set (it may always answer nil).
	InlineClosures bool
	// Init is called once with the initial state (facts a rule knows to hold on entry).
	Init func(st *State)
	// NoReturn reports calls that never return (the project's own fatal helpers); os.Exit, log.Fatal*, panic and
	// runtime.Goexit are known.
	NoReturn func(call *ast.CallExpr, callee types.Object) bool
	// OnInline is called when an inlined call is entered (after the parameters were bound) and when it is left
	// (after the facts about aliased parameters were copied back, before the results are assigned): rules that
	// carry their own event facts per variable move them across the call here.
	OnInline func(st *State, ev *InlineEvent)
}

// InlineEvent describes one entry into / exit from a call interpreted in place.
type InlineEvent struct {
	Call   *ast.CallExpr
	Callee *types.Func
	Fn     *Func
	Enter  bool
	// Params / Args pair the callee's receiver and parameters (identifiers) with the operands of the call.
	Params []*ast.Ident
	Args   []ast.Expr
	// Results are the callee's result expressions on this exit (nil on entry or when they cannot be named);
	// Return is the callee's return statement (nil when falling off the end).
	Results []ast.Expr
	Return  *ast.ReturnStmt
}

// Result of an analysis.
type Result struct {
	Fn *Func
	// At maps a CFG node to the states in which it is reached (before it executes).
	At map[ast.Node][]*State
	// Exits lists the function's exits.
	Exits []*Exit
	// Blocks / States are counters for evidence.
	Blocks int
	States int
	// Inlined names the functions whose bodies were interpreted in place.
	Inlined []string
}

type condInfo struct {
	tag ast.Expr // switch tag for case expressions (nil otherwise)
	sw  bool     // is a switch case expression
}

// Engine runs one analysis.
type Engine struct {
	Fn   *Func
	cfg  Config
	deps map[string]*factDeps
	cond map[ast.Expr]condInfo
	cfgs map[*ast.BlockStmt]*cfg.CFG
	res  *Result
	err  error

	inlineStack []*types.Func
	typeStack   []*ast.FuncType // function types of the bodies being interpreted (innermost last)
	indexed     map[*ast.BlockStmt]bool
	skipCall    map[*ast.CallExpr]bool
	skipAll     bool // do not fire call events (the expression was evaluated already)
	litFuncs    map[*ast.FuncLit]*types.Func
	boundLits   map[types.Object]*ast.FuncLit // func parameters of inlined helpers bound to literals
}

func (e *Engine) curType() *ast.FuncType {
	if n := len(e.typeStack); n > 0 {
		return e.typeStack[n-1]
	}
	return e.Fn.Type
}

// assignNamedResults models `return e1, e2` in a function with named results: the results take the values
// (deferred functions may read them).
func (e *Engine) assignNamedResults(states []*State, s *ast.ReturnStmt, exit exitFn) []*State {
	ft := e.curType()
	if ft == nil || ft.Results == nil || len(s.Results) == 0 {
		return states
	}
	var names []*ast.Ident
	for _, fld := range ft.Results.List {
		names = append(names, fld.Names...)
	}
	if len(names) != len(s.Results) {
		return states
	}
	for i, name := range names {
		if name.Name == "_" {
			continue
		}
		if id, ok := ast.Unparen(s.Results[i]).(*ast.Ident); ok && e.Fn.objOf(id) == e.Fn.objOf(name) {
			continue // return err (the result itself)
		}
		var next []*State
		for _, st := range states {
			e.skipAll = true
			next = append(next, e.assignOne(st, name, ast.Unparen(s.Results[i]), exit)...)
			e.skipAll = false
		}
		states = next
	}
	return states
}

type factDeps struct {
	vars map[types.Object]bool
	heap bool
}

// Analyze runs the engine on fn.
func Analyze(fn *Func, c Config) (*Result, error) {
	if c.MaxStates == 0 {
		c.MaxStates = 400000
	}
	e := &Engine{Fn: fn, cfg: c, deps: map[string]*factDeps{}, cond: map[ast.Expr]condInfo{},
		cfgs: map[*ast.BlockStmt]*cfg.CFG{}, indexed: map[*ast.BlockStmt]bool{}, skipCall: map[*ast.CallExpr]bool{}}
	e.res = &Result{Fn: fn, At: map[ast.Node][]*State{}}
	e.indexConds(fn.Body)
	init := &State{facts: map[string]Val{}, eng: e}
	if fn.Type != nil && fn.Type.Results != nil {
		for _, fld := range fn.Type.Results.List {
			for _, name := range fld.Names {
				if name.Name != "_" {
					e.learnZero(init, name) // named results start at their zero value
				}
			}
		}
	}
	if c.Init != nil {
		c.Init(init)
	}
	e.run(fn.Body, []*State{init}, func(st *State, kind ExitKind, ret *ast.ReturnStmt, at ast.Node) {
		if st.dead {
			return
		}
		e.res.Exits = append(e.res.Exits, &Exit{Kind: kind, Return: ret, At: at, State: st, Inner: st.inner})
	})
	if e.err != nil {
		return nil, e.err
	}
	return e.res, nil
}

func (e *Engine) indexConds(body ast.Node) {
	ast.Inspect(body, func(n ast.Node) bool {
		switch s := n.(type) {
		case *ast.IfStmt:
			e.cond[s.Cond] = condInfo{}
		case *ast.ForStmt:
			if s.Cond != nil {
				e.cond[s.Cond] = condInfo{}
			}
		case *ast.SwitchStmt:
			for _, c := range s.Body.List {
				for _, x := range c.(*ast.CaseClause).List {
					e.cond[x] = condInfo{tag: s.Tag, sw: true}
				}
			}
		}
		return true
	})
}

func (e *Engine) mayReturn(call *ast.CallExpr) bool {
	if e.cfg.NoReturn != nil && e.cfg.NoReturn(call, e.Fn.Callee(call)) {
		return false
	}
	switch o := e.Fn.Callee(call).(type) {
	case *types.Builtin:
		return o.Name() != "panic"
	case *types.Func:
		if o.Pkg() != nil {
			full := o.Pkg().Path() + "." + o.Name()
			switch full {
			case "os.Exit", "log.Fatal", "log.Fatalf", "log.Fatalln", "log.Panic", "log.Panicf", "runtime.Goexit":
				return false
			}
		}
	}
	return true
}

func (e *Engine) graph(body *ast.BlockStmt) *cfg.CFG {
	if g, ok := e.cfgs[body]; ok {
		return g
	}
	g := cfg.New(body, e.mayReturn)
	e.cfgs[body] = g
	e.res.Blocks += len(g.Blocks)
	return g
}

type exitFn func(st *State, kind ExitKind, ret *ast.ReturnStmt, at ast.Node)

type workItem struct {
	b  *cfg.Block
	st *State
}

// run interprets body from the given initial states; exits (after deferred functions
// registered *within this body*) are reported to out.
func (e *Engine) run(body *ast.BlockStmt, init []*State, out exitFn) {
	g := e.graph(body)
	if len(g.Blocks) == 0 {
		for _, st := range init {
			out(st, ExitReturn, nil, body)
		}
		return
	}
	seen := map[int32]map[string]bool{}
	var work []workItem
	push := func(b *cfg.Block, st *State) {
		if st.dead {
			return
		}
		m := seen[b.Index]
		if m == nil {
			m = map[string]bool{}
			seen[b.Index] = m
		}
		k := st.Key()
		if m[k] {
			return
		}
		m[k] = true
		e.res.States++
		if e.res.States > e.cfg.MaxStates {
			if e.err == nil {
				e.err = fmt.Errorf("%s: state budget exceeded (%d)", e.Fn.Name, e.cfg.MaxStates)
			}
			return
		}
		work = append(work, workItem{b, st})
	}
	for _, st := range init {
		push(g.Blocks[0], st)
	}
	baseDefers := 0
	if len(init) > 0 {
		baseDefers = len(init[0].defers)
	}
	exit := func(st *State, kind ExitKind, ret *ast.ReturnStmt, at ast.Node) {
		e.runDefers(st, baseDefers, kind, ret, at, out)
	}
	for len(work) > 0 && e.err == nil {
		it := work[len(work)-1]
		work = work[:len(work)-1]
		e.block(it.b, it.st, push, exit)
	}
}

func (e *Engine) block(b *cfg.Block, st *State, push func(*cfg.Block, *State), exit exitFn) {
	if e.cfg.OnBlock != nil {
		st = st.clone("")
		e.cfg.OnBlock(st, b)
	}
	if b.Kind == cfg.KindRangeBody {
		if rs, ok := b.Stmt.(*ast.RangeStmt); ok {
			st = st.clone("")
			if rs.Key != nil {
				e.killExpr(st, rs.Key)
			}
			if rs.Value != nil {
				e.killExpr(st, rs.Value)
			}
		}
	}
	states := []*State{st}
	nodes := b.Nodes
	var cond ast.Expr
	if len(b.Succs) == 2 && len(nodes) > 0 {
		if x, ok := nodes[len(nodes)-1].(ast.Expr); ok {
			if _, isCond := e.cond[x]; isCond {
				cond = x
				nodes = nodes[:len(nodes)-1]
			}
		}
	}
	for _, n := range nodes {
		var next []*State
		for _, s := range states {
			next = append(next, e.exec(s, n, exit)...)
		}
		states = next
	}
	switch len(b.Succs) {
	case 2:
		for _, s := range states {
			if cond != nil {
				e.res.At[cond] = append(e.res.At[cond], s)
				if e.cfg.OnNode != nil {
					s = s.clone("")
					e.cfg.OnNode(s, cond)
				}
				ci := e.cond[cond]
				pos := e.Fn.Pos(cond.Pos())
				for _, t := range e.assumeCond(s, cond, ci, true, exit) {
					t = t.clone(pos + " [" + short(e.Fn.Render(cond)) + "]=T")
					if e.cfg.AfterAssume != nil {
						e.cfg.AfterAssume(t, cond, true)
					}
					push(b.Succs[0], t)
				}
				for _, t := range e.assumeCond(s, cond, ci, false, exit) {
					t = t.clone(pos + " [" + short(e.Fn.Render(cond)) + "]=F")
					if e.cfg.AfterAssume != nil {
						e.cfg.AfterAssume(t, cond, false)
					}
					push(b.Succs[1], t)
				}
			} else {
				pos := "?"
				if b.Stmt != nil {
					pos = e.Fn.Pos(b.Stmt.Pos())
				}
				push(b.Succs[0], s.clone(pos+" "+b.Kind.String()+"=enter"))
				push(b.Succs[1], s.clone(pos+" "+b.Kind.String()+"=skip"))
			}
		}
	case 1:
		for _, s := range states {
			push(b.Succs[0], s)
		}
	case 0:
		if b.Kind == cfg.KindSelectAfterCase {
			// go/cfg ends the "no case ready" chain of a select without default in a block
			// without successors; such a select blocks, so this is not an exit
			return
		}
		var last ast.Node
		if len(b.Nodes) > 0 {
			last = b.Nodes[len(b.Nodes)-1]
		}
		for _, s := range states {
			switch l := last.(type) {
			case *ast.ReturnStmt:
				exit(s, ExitReturn, l, l)
			case *ast.ExprStmt:
				if call, ok := l.X.(*ast.CallExpr); ok && !e.mayReturn(call) {
					if bi, ok := e.Fn.Callee(call).(*types.Builtin); ok && bi.Name() == "panic" {
						p := s.clone(e.Fn.Pos(call.Pos()) + " panic()")
						p.Set(Panicking, True)
						exit(p, ExitPanic, nil, call)
					}
					// os.Exit etc.: the process ends, no exit state.
					continue
				}
				exit(s, ExitReturn, nil, l)
			default:
				if last == nil {
					exit(s, ExitReturn, nil, b.Stmt)
				} else {
					exit(s, ExitReturn, nil, last)
				}
			}
		}
	}
}

func short(s string) string {
	r := []rune(s)
	if len(r) > 70 {
		return string(r[:67]) + "..."
	}
	return s
}

// runDefers interprets the deferred calls registered beyond index base in LIFO order.
func (e *Engine) runDefers(st *State, base int, kind ExitKind, ret *ast.ReturnStmt, at ast.Node, out exitFn) {
	if len(st.defers) <= base {
		if kind == ExitPanic && !st.Is(Panicking, True) {
			kind = ExitReturn // recovered
		}
		if kind == ExitReturn && st.Is(Panicking, True) {
			kind = ExitPanic
		}
		out(st, kind, ret, at)
		return
	}
	d := st.defers[len(st.defers)-1]
	rest := st.clone("")
	rest.defers = st.defers[:len(st.defers)-1]
	if lit, ok := ast.Unparen(d.Call.Fun).(*ast.FuncLit); ok {
		// interpret the literal's body; its own exits continue with the remaining defers
		inner := rest.clone(e.Fn.Pos(d.Pos()) + " run deferred func")
		saved := inner.defers
		inner.defers = nil
		e.typeStack = append(e.typeStack, lit.Type)
		e.run(lit.Body, []*State{inner}, func(s2 *State, k2 ExitKind, _ *ast.ReturnStmt, _ ast.Node) {
			s3 := s2.clone("")
			s3.defers = saved
			e.typeStack = e.typeStack[:len(e.typeStack)-1]
			e.runDefers(s3, base, kind, ret, at, out)
			e.typeStack = append(e.typeStack, lit.Type)
		})
		e.typeStack = e.typeStack[:len(e.typeStack)-1]
		return
	}
	// a deferred call of a function the rule lets the engine interpret: like a deferred literal (a recover() in
	// it is taken to be called by the deferred function itself)
	if call, fn, callee := e.inlTarget(d.Call); fn != nil {
		inner := rest.clone(e.Fn.Pos(d.Pos()) + " run deferred " + callee.Name())
		saved := inner.defers
		inner.defers = nil
		panicOut := func(s2 *State, k2 ExitKind, _ *ast.ReturnStmt, _ ast.Node) {
			s3 := s2.clone("")
			s3.defers = saved
			e.runDefers(s3, base, kind, ret, at, out)
		}
		keep := inner.inner // the function's own tail-call return (Exit.Inner) survives its deferred calls
		for _, o := range e.inline(inner, call, fn, callee, panicOut, nil) {
			s3 := o.st.clone("")
			s3.inner = keep
			s3.defers = saved
			e.runDefers(s3, base, kind, ret, at, out)
		}
		return
	}
	// plain deferred call: evaluate it now
	s2 := rest.clone(e.Fn.Pos(d.Pos()) + " run deferred call")
	e.callEvent(s2, d.Call, true, nil)
	e.runDefers(s2, base, kind, ret, at, out)
}

// exec applies the transfer function of a non-branch node.
func (e *Engine) exec(st *State, n ast.Node, exit exitFn) []*State {
	e.res.At[n] = append(e.res.At[n], st)
	st = st.clone("")
	if e.cfg.OnNode != nil {
		e.cfg.OnNode(st, n)
	}
	switch s := n.(type) {
	case *ast.AssignStmt:
		return e.assign(st, s.Lhs, s.Rhs, s.Tok, exit)
	case *ast.ValueSpec:
		lhs := make([]ast.Expr, len(s.Names))
		for i, id := range s.Names {
			lhs[i] = id
		}
		if len(s.Values) == 0 {
			for _, l := range lhs {
				e.killExpr(st, l)
				// zero value
				e.learnZero(st, l)
			}
			return []*State{st}
		}
		return e.assign(st, lhs, s.Values, token.DEFINE, exit)
	case *ast.IncDecStmt:
		e.evalCalls(st, s.X, exit)
		e.killExpr(st, s.X)
	case *ast.ExprStmt:
		if call, fn, callee := e.inlTarget(s.X); fn != nil {
			var out []*State
			for _, o := range e.inline(st, call, fn, callee, exit, nil) {
				o.st.inner = nil
				out = append(out, o.st)
			}
			return out
		}
		e.evalCalls(st, s.X, exit)
	case *ast.DeferStmt:
		for _, a := range s.Call.Args {
			e.evalCalls(st, a, exit)
		}
		if _, isLit := ast.Unparen(s.Call.Fun).(*ast.FuncLit); !isLit {
			e.evalCalls(st, s.Call.Fun, exit)
		}
		nd := make([]*ast.DeferStmt, len(st.defers)+1)
		copy(nd, st.defers)
		nd[len(st.defers)] = s
		st.defers = nd
		st.key = ""
	case *ast.GoStmt:
		for _, a := range s.Call.Args {
			e.evalCalls(st, a, exit)
		}
		e.evalCalls(st, s.Call.Fun, exit)
		e.callEvent(st, s.Call, false, exit)
	case *ast.ReturnStmt:
		if len(s.Results) == 1 {
			if call, fn, callee := e.inlTarget(s.Results[0]); fn != nil {
				var out []*State
				for _, o := range e.inline(st, call, fn, callee, exit, nil) {
					states := []*State{o.st}
					if len(o.results) == 1 {
						// the returned value is the callee's: attach what is known about it to the call expression
						e.skipCall[call] = true
						states = e.assignOne(o.st, call, ast.Unparen(o.results[0]), exit)
						delete(e.skipCall, call)
					}
					for _, t := range states {
						if t.inner == nil {
							t.inner = o.ret
						}
						out = append(out, t)
					}
				}
				return out
			}
		}
		for _, r := range s.Results {
			e.evalCalls(st, r, exit)
		}
		return e.assignNamedResults([]*State{st}, s, exit)
	case *ast.SendStmt:
		e.evalCalls(st, s.Chan, exit)
		e.evalCalls(st, s.Value, exit)
	case ast.Expr:
		// range X / key / value, select lhs, switch tag
		e.evalCalls(st, s, exit)
	}
	return []*State{st}
}

func (e *Engine) learnZero(st *State, l ast.Expr) {
	tv, ok := e.Fn.Info.Types[l]
	var t types.Type
	if ok {
		t = tv.Type
	} else if id, ok := l.(*ast.Ident); ok {
		if o := e.Fn.objOf(id); o != nil {
			t = o.Type()
		}
	}
	if t == nil {
		return
	}
	switch u := t.Underlying().(type) {
	case *types.Basic:
		if u.Info()&types.IsBoolean != 0 {
			e.learn(st, e.Fn.VarKey(l), False, l)
		}
		if u.Info()&types.IsString != 0 {
			e.learn(st, "eq:"+e.Fn.Render(l)+`==""`, True, l)
		}
	case *types.Pointer, *types.Interface, *types.Map, *types.Slice, *types.Chan, *types.Signature:
		e.learn(st, e.Fn.NilKey(l), True, l)
	}
}

func (e *Engine) assign(st *State, lhs, rhs []ast.Expr, tok token.Token, exit exitFn) []*State {
	if len(rhs) == 1 && (tok == token.ASSIGN || tok == token.DEFINE) {
		if call, fn, callee := e.inlTarget(rhs[0]); fn != nil {
			for _, l := range lhs {
				if _, isIdent := l.(*ast.Ident); !isIdent {
					e.evalCalls(st, l, exit)
				}
			}
			var out []*State
			for _, o := range e.inline(st, call, fn, callee, exit, nil) {
				o.st.inner = nil
				states := []*State{o.st}
				if len(o.results) == len(lhs) {
					for i := range lhs {
						var next []*State
						for _, s := range states {
							next = append(next, e.assignOne(s, lhs[i], ast.Unparen(o.results[i]), exit)...)
						}
						states = next
					}
					// the callee returned a variable / path: what is known about it (also what a later result of the
					// same return taught, `return svr, svr != nil`), about its fields and about calls on it is known
					// about the variable it is assigned to
					for i := range lhs {
						if id, ok := lhs[i].(*ast.Ident); ok && id.Name != "_" && stablePath(o.results[i]) {
							for _, s := range states {
								e.transfer(s, e.Fn.Render(ast.Unparen(o.results[i])), e.Fn.Render(id), nil, id)
							}
						}
					}
				} else {
					for _, l := range lhs {
						e.killExpr(o.st, l)
					}
				}
				out = append(out, states...)
			}
			return out
		}
	}
	for _, r := range rhs {
		e.evalCalls(st, r, exit)
	}
	for _, l := range lhs {
		// calls inside index expressions etc.
		if _, isIdent := l.(*ast.Ident); !isIdent {
			e.evalCalls(st, l, exit)
		}
	}
	if len(lhs) == len(rhs) && tok != token.ASSIGN && tok != token.DEFINE {
		// op-assign (+=, |= ...)
		for _, l := range lhs {
			e.killExpr(st, l)
		}
		return []*State{st}
	}
	if len(lhs) != len(rhs) {
		for _, l := range lhs {
			e.killExpr(st, l)
		}
		// v, ok := <-ch / m[k] / x.(T): nothing learned; recover() never appears here
		return []*State{st}
	}
	states := []*State{st}
	for i := range lhs {
		l, r := lhs[i], ast.Unparen(rhs[i])
		var next []*State
		for _, s := range states {
			next = append(next, e.assignOne(s, l, r, exit)...)
		}
		states = next
	}
	return states
}

func isBlank(e ast.Expr) bool {
	id, ok := e.(*ast.Ident)
	return ok && id.Name == "_"
}

func (e *Engine) assignOne(st *State, l, r ast.Expr, exit exitFn) []*State {
	if isBlank(l) {
		return []*State{st}
	}
	f := e.Fn
	// evaluate what the RHS is in the current state *before* killing (x = !x etc.)
	tv := f.Info.Types[r]
	if tv.Type == nil {
		if id, ok := r.(*ast.Ident); ok { // a defining identifier (named result of an inlined callee)
			if o := f.objOf(id); o != nil {
				tv.Type = o.Type()
			}
		}
	}
	varKey := f.VarKey
	if _, isCall := l.(*ast.CallExpr); isCall {
		varKey = f.CallKey // the value of `return h(..)` is known under the call's own key
	}
	isBool := false
	if tv.Type != nil {
		if b, ok := tv.Type.Underlying().(*types.Basic); ok && b.Info()&types.IsBoolean != 0 {
			isBool = true
		}
	}
	// recover()
	if call, ok := r.(*ast.CallExpr); ok {
		if bi, ok := f.Callee(call).(*types.Builtin); ok && bi.Name() == "recover" {
			e.killExpr(st, l)
			if st.Is(Panicking, True) {
				st.Set(Panicking, False)
				st.Set(Recovered, True)
				e.learn(st, f.NilKey(l), False, l)
			} else {
				e.learn(st, f.NilKey(l), True, l)
			}
			return []*State{st}
		}
	}
	if isBool && tv.Value == nil {
		// fork on the value of the right-hand side so that the variable stays correlated
		// with the atoms it was computed from
		var out []*State
		ts := e.assume(st, r, true, exit)
		fs := e.assume(st, r, false, exit)
		for _, t := range ts {
			t = t.clone("")
			e.killExpr(t, l)
			e.learn(t, varKey(l), True, l)
			out = append(out, t)
		}
		for _, t := range fs {
			t = t.clone("")
			e.killExpr(t, l)
			e.learn(t, varKey(l), False, l)
			out = append(out, t)
		}
		return out
	}
	// snapshot facts about the RHS expression to transfer them to the LHS (x := y)
	var copyNil, copyVal Val
	var copyEq []string
	rr := f.Render(r)
	if _, isIdent := r.(*ast.Ident); isIdent || isSel(r) {
		copyNil = st.Get("nil:" + rr)
		copyVal = st.Get("v:" + rr)
		pre := "eq:" + rr + "=="
		for k, v := range st.facts {
			if strings.HasPrefix(k, pre) && v != Unknown {
				copyEq = append(copyEq, k[len(pre):]+"\x00"+v.String())
			}
		}
	}
	e.killExpr(st, l)
	lr := f.Render(l)
	e.learnLiteralFields(st, l, r)
	switch {
	case tv.Value != nil:
		if isBool {
			e.learn(st, varKey(l), boolVal(tv.Value.ExactString() == "true"), l)
		} else {
			e.learn(st, "eq:"+lr+"=="+tv.Value.ExactString(), True, l)
		}
	case f.isNilExpr(r):
		e.learn(st, f.NilKey(l), True, l)
	case isNonNilExpr(r) || f.nonNilCall(r):
		e.learn(st, f.NilKey(l), False, l)
	default:
		if g, ok := f.globalName(r); ok {
			// x = <package-level variable> (error sentinel, shared route, ...)
			e.learn(st, "eq:"+lr+"==@"+g, True, l)
			if isErrorType(tv.Type) {
				e.learn(st, f.NilKey(l), False, l)
			}
		}
		if copyNil != Unknown {
			e.learn(st, "nil:"+lr, copyNil, l, r)
		}
		if copyVal != Unknown {
			e.learn(st, "v:"+lr, copyVal, l, r)
		}
		for _, c := range copyEq {
			parts := strings.SplitN(c, "\x00", 2)
			v := True
			if parts[1] == "F" {
				v = False
			}
			e.learn(st, "eq:"+lr+"=="+parts[0], v, l, r)
		}
	}
	return []*State{st}
}

func isSel(e ast.Expr) bool {
	_, ok := e.(*ast.SelectorExpr)
	return ok
}

func isErrorType(t types.Type) bool {
	if t == nil {
		return false
	}
	return types.Identical(t, types.Universe.Lookup("error").Type())
}

// nonNilCall: constructors of the standard library that never return nil.
func (f *Func) nonNilCall(r ast.Expr) bool {
	call, ok := ast.Unparen(r).(*ast.CallExpr)
	if !ok {
		return false
	}
	fo, ok := typeutil.Callee(f.Info, call).(*types.Func)
	if !ok || fo.Pkg() == nil {
		return false
	}
	switch fo.Pkg().Path() + "." + fo.Name() {
	case "fmt.Errorf", "errors.New":
		return true
	}
	return false
}

func isNonNilExpr(r ast.Expr) bool {
	switch x := r.(type) {
	case *ast.UnaryExpr:
		return x.Op == token.AND
	case *ast.CompositeLit, *ast.FuncLit:
		return true
	case *ast.CallExpr:
		if id, ok := x.Fun.(*ast.Ident); ok && (id.Name == "new" || id.Name == "make") {
			return true
		}
	}
	return false
}

// learn records a fact (if tracked) together with the variables/fields it depends on.
func (e *Engine) learn(st *State, key string, v Val, exprs ...ast.Expr) {
	if e.cfg.Track != nil && !e.cfg.Track(key) {
		return
	}
	if _, ok := e.deps[key]; !ok {
		d := &factDeps{vars: map[types.Object]bool{}}
		for _, x := range exprs {
			e.collectDeps(d, x)
		}
		e.deps[key] = d
	}
	st.Set(key, v)
}

// Learn lets rules record a fact with dependencies (killed like engine facts).
func (e *Engine) Learn(st *State, key string, v Val, exprs ...ast.Expr) {
	e.learn(st, key, v, exprs...)
}

func (e *Engine) collectDeps(d *factDeps, x ast.Expr) {
	ast.Inspect(x, func(n ast.Node) bool {
		switch t := n.(type) {
		case *ast.Ident:
			if o := e.Fn.objOf(t); o != nil {
				if v, ok := o.(*types.Var); ok {
					d.vars[v] = true
					if v.IsField() || !e.Fn.isLocal(v) {
						d.heap = true
					}
				}
			}
		case *ast.SelectorExpr:
			if sel := e.Fn.Info.Selections[t]; sel != nil {
				if v, ok := sel.Obj().(*types.Var); ok {
					d.vars[v] = true
					d.heap = true
				}
			}
		case *ast.IndexExpr, *ast.StarExpr:
			d.heap = true
		case *ast.CallExpr:
			// result of a call: not a heap location by itself; its arguments are inspected
		case *ast.FuncLit:
			return false
		}
		return true
	})
}

// killExpr removes facts invalidated by an assignment to l.
func (e *Engine) killExpr(st *State, l ast.Expr) {
	l = ast.Unparen(l)
	var obj types.Object
	switch x := l.(type) {
	case *ast.Ident:
		if x.Name == "_" {
			return
		}
		obj = e.Fn.objOf(x)
	case *ast.SelectorExpr:
		if sel := e.Fn.Info.Selections[x]; sel != nil {
			obj = sel.Obj()
		} else {
			obj = e.Fn.objOf(x.Sel)
		}
	case *ast.IndexExpr:
		// assignment to an element: kill heap facts mentioning the container
		e.killContaining(st, e.Fn.Render(x.X))
		return
	case *ast.StarExpr:
		e.killHeap(st)
		return
	}
	if obj == nil {
		return
	}
	for k := range st.facts {
		if d := e.deps[k]; d != nil && d.vars[obj] {
			st.Set(k, Unknown)
		}
	}
}

func (e *Engine) killContaining(st *State, sub string) {
	for k := range st.facts {
		if d := e.deps[k]; d != nil && strings.Contains(k, sub) {
			st.Set(k, Unknown)
		}
	}
}

func (e *Engine) killHeap(st *State) {
	for k := range st.facts {
		if d := e.deps[k]; d != nil && d.heap {
			st.Set(k, Unknown)
		}
	}
}

// KillVar removes the facts depending on a variable (for rules).
func (e *Engine) KillVar(st *State, o types.Object) {
	for k := range st.facts {
		if d := e.deps[k]; d != nil && d.vars[o] {
			st.Set(k, Unknown)
		}
	}
}

// evalCalls visits the calls inside x in evaluation order (inner first), firing events.
func (e *Engine) evalCalls(st *State, x ast.Expr, exit exitFn) {
	if x == nil || e.skipAll {
		return
	}
	switch t := ast.Unparen(x).(type) {
	case *ast.CallExpr:
		if _, isLit := ast.Unparen(t.Fun).(*ast.FuncLit); !isLit {
			e.evalCalls(st, t.Fun, exit)
		}
		if e.skipCall[t] {
			return // already interpreted in place
		}
		for _, a := range t.Args {
			e.evalCalls(st, a, exit)
		}
		e.callEvent(st, t, false, exit)
	case *ast.FuncLit:
		// a closure is created: it may run at any later time; forget what it assigns
		e.killAssignedIn(st, t)
	case *ast.BinaryExpr:
		if t.Op == token.LAND || t.Op == token.LOR {
			// short-circuit: calls on the right may or may not run; evaluate (events fire
			// conservatively) — rules that depend on this use conditions, handled by assume.
			e.evalCalls(st, t.X, exit)
			e.evalCalls(st, t.Y, exit)
			return
		}
		e.evalCalls(st, t.X, exit)
		e.evalCalls(st, t.Y, exit)
	case *ast.UnaryExpr:
		e.evalCalls(st, t.X, exit)
		if t.Op == token.AND {
			// address taken: the variable may change behind our back from now on
			// (only matters for calls; handled by havoc of heap facts + explicit kill)
			if id, ok := ast.Unparen(t.X).(*ast.Ident); ok {
				if o := e.Fn.objOf(id); o != nil {
					e.KillVar(st, o)
				}
			}
		}
	case *ast.SelectorExpr:
		e.evalCalls(st, t.X, exit)
	case *ast.IndexExpr:
		e.evalCalls(st, t.X, exit)
		e.evalCalls(st, t.Index, exit)
	case *ast.SliceExpr:
		e.evalCalls(st, t.X, exit)
		e.evalCalls(st, t.Low, exit)
		e.evalCalls(st, t.High, exit)
		e.evalCalls(st, t.Max, exit)
	case *ast.StarExpr:
		e.evalCalls(st, t.X, exit)
	case *ast.TypeAssertExpr:
		e.evalCalls(st, t.X, exit)
	case *ast.CompositeLit:
		for _, el := range t.Elts {
			if kv, ok := el.(*ast.KeyValueExpr); ok {
				e.evalCalls(st, kv.Value, exit)
			} else {
				e.evalCalls(st, el, exit)
			}
		}
	case *ast.KeyValueExpr:
		e.evalCalls(st, t.Value, exit)
	}
}

func (e *Engine) killAssignedIn(st *State, lit *ast.FuncLit) {
	ast.Inspect(lit.Body, func(n ast.Node) bool {
		switch s := n.(type) {
		case *ast.AssignStmt:
			for _, l := range s.Lhs {
				if id, ok := l.(*ast.Ident); ok && s.Tok != token.DEFINE {
					if o := e.Fn.objOf(id); o != nil {
						e.KillVar(st, o)
					}
				}
			}
		case *ast.IncDecStmt:
			if id, ok := s.X.(*ast.Ident); ok {
				if o := e.Fn.objOf(id); o != nil {
					e.KillVar(st, o)
				}
			}
		}
		return true
	})
}

// callEvent handles one evaluated call: freshness of its outcome fact, hooks, havoc and the
// panic exit.
func (e *Engine) callEvent(st *State, call *ast.CallExpr, deferred bool, exit exitFn) {
	callee := e.Fn.Callee(call)
	// type conversions are not calls
	if tv, ok := e.Fn.Info.Types[call.Fun]; ok && tv.IsType() {
		return
	}
	st.Set(e.Fn.CallKey(call), Unknown)
	e.res.At[call] = append(e.res.At[call], st.clone(""))
	if e.cfg.MayPanic != nil && exit != nil && e.cfg.MayPanic(call, callee) {
		p := st.clone(e.Fn.Pos(call.Pos()) + " " + short(e.Fn.Render(call)) + " panics")
		p.Set(Panicking, True)
		exit(p, ExitPanic, nil, call)
	}
	if e.cfg.OnCall != nil {
		e.cfg.OnCall(st, call, callee, deferred)
	}
	if _, isBuiltin := callee.(*types.Builtin); isBuiltin {
		return
	}
	if e.cfg.NoHavoc {
		return
	}
	if e.cfg.Pure != nil && e.cfg.Pure(call, callee) {
		return
	}
	e.killHeap(st)
}

// assumeCond assumes a branch condition (possibly a switch case) to have the given outcome.
func (e *Engine) assumeCond(st *State, cond ast.Expr, ci condInfo, want bool, exit exitFn) []*State {
	if ci.sw && ci.tag != nil {
		s := st.clone("")
		e.evalCalls(s, cond, exit)
		key := e.Fn.EqKey(ci.tag, cond)
		return e.decide(s, key, false, want, ci.tag, cond)
	}
	return e.assume(st, cond, want, exit)
}

// assume returns the refinements of st in which x evaluates to want.
func (e *Engine) assume(st *State, x ast.Expr, want bool, exit exitFn) []*State {
	x = ast.Unparen(x)
	switch t := x.(type) {
	case *ast.UnaryExpr:
		if t.Op == token.NOT {
			return e.assume(st, t.X, !want, exit)
		}
	case *ast.BinaryExpr:
		switch t.Op {
		case token.LAND:
			if want {
				var out []*State
				for _, s := range e.assume(st, t.X, true, exit) {
					out = append(out, e.assume(s, t.Y, true, exit)...)
				}
				return out
			}
			out := e.assume(st, t.X, false, exit)
			for _, s := range e.assume(st, t.X, true, exit) {
				out = append(out, e.assume(s, t.Y, false, exit)...)
			}
			return out
		case token.LOR:
			if !want {
				var out []*State
				for _, s := range e.assume(st, t.X, false, exit) {
					out = append(out, e.assume(s, t.Y, false, exit)...)
				}
				return out
			}
			out := e.assume(st, t.X, true, exit)
			for _, s := range e.assume(st, t.X, false, exit) {
				out = append(out, e.assume(s, t.Y, true, exit)...)
			}
			return out
		case token.EQL, token.NEQ:
			// b == true / b == false
			if c, ok := e.Fn.constOf(t.Y); ok && (c == "true" || c == "false") {
				w := want
				if (c == "false") != (t.Op == token.NEQ) {
					w = !w
				}
				return e.assume(st, t.X, w, exit)
			}
		}
	}
	// atom: a call interpreted in place (the atom itself, or an operand of a comparison)
	if outs, done := e.assumeInlined(st, x, want, exit); done {
		return outs
	}
	s := st.clone("")
	e.evalCalls(s, x, exit)
	// recover() != nil
	if be, ok := x.(*ast.BinaryExpr); ok && (be.Op == token.EQL || be.Op == token.NEQ) {
		for _, side := range []ast.Expr{be.X, be.Y} {
			if call, ok := ast.Unparen(side).(*ast.CallExpr); ok {
				if bi, ok := e.Fn.Callee(call).(*types.Builtin); ok && bi.Name() == "recover" {
					isNil := !s.Is(Panicking, True)
					res := isNil == (be.Op == token.EQL)
					if res != want {
						return nil
					}
					if !isNil {
						s.Set(Panicking, False)
						s.Set(Recovered, True)
					}
					return []*State{s}
				}
			}
		}
	}
	if c, ok := e.Fn.constOf(x); ok {
		if (c == "true") == want {
			return []*State{s}
		}
		return nil
	}
	key, neg := e.Fn.Atom(x)
	return e.decide(s, key, neg, want, x)
}

// decide looks a fact up and either filters the state or learns the outcome.
func (e *Engine) decide(s *State, key string, neg, want bool, exprs ...ast.Expr) []*State {
	target := boolVal(want != neg) // required value of the positive fact
	cur := s.Get(key)
	if cur == Unknown {
		cur = e.derive(s, key)
	}
	if cur != Unknown {
		if cur == target {
			return []*State{s}
		}
		return nil
	}
	e.learn(s, key, target, exprs...)
	return []*State{s}
}

// derive infers the value of an equality fact from other facts about the same expression.
func (e *Engine) derive(s *State, key string) Val {
	if strings.HasPrefix(key, "eq:") {
		i := strings.LastIndex(key, "==")
		if i < 0 {
			return Unknown
		}
		pre := key[:i+2]
		for k, v := range s.facts {
			if v == True && k != key && strings.HasPrefix(k, pre) && isConstName(k[len(pre):]) && isConstName(key[i+2:]) {
				return False // equal to a different constant
			}
		}
		// x == <error sentinel> with x known nil
		if s.Is("nil:"+key[3:i], True) && strings.HasPrefix(key[i+2:], "@") {
			return False
		}
	}
	if strings.HasPrefix(key, "nil:") {
		// x known equal to a non-nil sentinel or constant
		pre := "eq:" + key[4:] + "=="
		for k, v := range s.facts {
			if v == True && strings.HasPrefix(k, pre) {
				return False
			}
		}
	}
	return Unknown
}

// isConstName: the right side of an eq key is a literal constant or qualified global
// (distinct names denote distinct values for literals; for globals we assume distinct
// sentinels are distinct values).
func isConstName(s string) bool {
	if s == "" {
		return false
	}
	c := s[0]
	return c == '"' || (c >= '0' && c <= '9') || c == '-' || c == '@' || s == "true" || s == "false"
}

// assumeInlined handles an atom that is, or compares, a call interpreted in place.
func (e *Engine) assumeInlined(st *State, x ast.Expr, want bool, exit exitFn) ([]*State, bool) {
	if e.cfg.Inline == nil || exit == nil || e.skipAll {
		return nil, false
	}
	if call, fn, callee := e.inlTarget(x); fn != nil {
		var out []*State
		// the result is assumed inside the callee's vocabulary, before the facts about its parameters are copied back
		mid := func(s *State, o *inlExit) []*State {
			if len(o.results) != 1 {
				return e.decide(s, e.Fn.CallKey(call), false, want, x)
			}
			var res []*State
			for _, t := range e.assume(s, o.results[0], want, exit) {
				t = t.clone("")
				e.learn(t, e.Fn.CallKey(call), boolVal(want), x)
				res = append(res, t)
			}
			return res
		}
		for _, o := range e.inline(st.clone(""), call, fn, callee, exit, mid) {
			o.st.inner = nil
			out = append(out, o.st)
		}
		return out, true
	}
	be, ok := x.(*ast.BinaryExpr)
	if !ok {
		return nil, false
	}
	switch be.Op {
	case token.EQL, token.NEQ, token.LSS, token.LEQ, token.GTR, token.GEQ:
	default:
		return nil, false
	}
	for _, side := range []ast.Expr{be.X, be.Y} {
		call, fn, callee := e.inlTarget(side)
		if fn == nil {
			continue
		}
		var out []*State
		for _, o := range e.inline(st.clone(""), call, fn, callee, exit, nil) {
			o.st.inner = nil
			states := []*State{o.st}
			if len(o.results) == 1 {
				e.skipCall[call] = true
				states = e.assignOne(o.st, call, ast.Unparen(o.results[0]), exit)
				delete(e.skipCall, call)
			}
			for _, t := range states {
				e.skipCall[call] = true
				t = t.clone("")
				e.evalCalls(t, x, exit)
				delete(e.skipCall, call)
				key, neg := e.Fn.Atom(x)
				out = append(out, e.decide(t, key, neg, want, x)...)
			}
		}
		return out, true
	}
	return nil, false
}

// learnLiteralFields: `x := T{f: true}` / `x := &T{..}` teaches the constant boolean and nil fields of the literal
// and the zero values of the boolean / nil-able fields it omits (x.f is keyed like any other path).
func (e *Engine) learnLiteralFields(st *State, l, r ast.Expr) {
	id, ok := ast.Unparen(l).(*ast.Ident)
	if !ok || id.Name == "_" {
		return
	}
	r = ast.Unparen(r)
	if u, ok := r.(*ast.UnaryExpr); ok && u.Op == token.AND {
		r = ast.Unparen(u.X)
	}
	cl, ok := r.(*ast.CompositeLit)
	if !ok {
		return
	}
	tv, ok := e.Fn.Info.Types[cl]
	if !ok || tv.Type == nil {
		return
	}
	stt, ok := tv.Type.Underlying().(*types.Struct)
	if !ok {
		return
	}
	base := e.Fn.Render(id)
	given := map[string]ast.Expr{}
	keyed := true
	for _, el := range cl.Elts {
		kv, ok := el.(*ast.KeyValueExpr)
		if !ok {
			keyed = false
			break
		}
		if k, ok := kv.Key.(*ast.Ident); ok {
			given[k.Name] = kv.Value
		}
	}
	if !keyed {
		return
	}
	for i := 0; i < stt.NumFields(); i++ {
		fld := stt.Field(i)
		if fld.Embedded() {
			continue
		}
		path := base + "." + fld.Name()
		val, has := given[fld.Name()]
		switch u := fld.Type().Underlying().(type) {
		case *types.Basic:
			if u.Info()&types.IsBoolean == 0 {
				continue
			}
			if !has {
				e.learn(st, "v:"+path, False, id)
			} else if c, ok := e.Fn.constOf(val); ok {
				e.learn(st, "v:"+path, boolVal(c == "true"), id)
			}
		case *types.Pointer, *types.Interface, *types.Map, *types.Slice, *types.Chan, *types.Signature:
			if !has || e.Fn.isNilExpr(val) {
				e.learn(st, "nil:"+path, True, id)
			} else if isNonNilExpr(ast.Unparen(val)) {
				e.learn(st, "nil:"+path, False, id)
			}
		}
	}
}
