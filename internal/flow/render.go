package flow

import (
	"fmt"
	"go/ast"
	"go/constant"
	"go/token"
	"go/types"
	"strings"
)

// Render produces a canonical string for an expression in which local variables are
// identified by object (name·line:col of the declaration), so that shadowed variables with
// the same name are kept apart and the same variable renders identically everywhere.
func (f *Func) Render(e ast.Expr) string {
	var sb strings.Builder
	f.render(&sb, e)
	return sb.String()
}

func (f *Func) objOf(id *ast.Ident) types.Object {
	if o := f.Info.Uses[id]; o != nil {
		return o
	}
	return f.Info.Defs[id]
}

func (f *Func) isLocal(o types.Object) bool {
	if o == nil || o.Pkg() == nil {
		return false
	}
	if v, ok := o.(*types.Var); ok {
		if v.IsField() {
			return false
		}
		return o.Parent() != o.Pkg().Scope()
	}
	return false
}

func (f *Func) render(sb *strings.Builder, e ast.Expr) {
	switch x := e.(type) {
	case nil:
		sb.WriteString("<nil>")
	case *ast.ParenExpr:
		f.render(sb, x.X)
	case *ast.Ident:
		o := f.objOf(x)
		if f.isLocal(o) {
			p := f.Fset.Position(o.Pos())
			fmt.Fprintf(sb, "%s·%d:%d", x.Name, p.Line, p.Column)
			return
		}
		if c, ok := o.(*types.Const); ok && c.Val().Kind() != constant.Unknown {
			// constants render by qualified name (stable, readable)
			if c.Pkg() != nil && c.Pkg() != f.Pkg.Types {
				sb.WriteString(c.Pkg().Name() + ".")
			}
			sb.WriteString(c.Name())
			return
		}
		if o != nil && o.Pkg() != nil && o.Pkg() != f.Pkg.Types && o.Parent() == o.Pkg().Scope() {
			sb.WriteString(o.Pkg().Name() + ".")
		}
		sb.WriteString(x.Name)
	case *ast.SelectorExpr:
		if id, ok := x.X.(*ast.Ident); ok {
			if _, isPkg := f.objOf(id).(*types.PkgName); isPkg {
				sb.WriteString(id.Name + "." + x.Sel.Name)
				return
			}
		}
		f.render(sb, x.X)
		sb.WriteString("." + x.Sel.Name)
	case *ast.StarExpr:
		sb.WriteString("*")
		f.render(sb, x.X)
	case *ast.UnaryExpr:
		sb.WriteString(x.Op.String())
		f.render(sb, x.X)
	case *ast.BinaryExpr:
		sb.WriteString("(")
		f.render(sb, x.X)
		sb.WriteString(" " + x.Op.String() + " ")
		f.render(sb, x.Y)
		sb.WriteString(")")
	case *ast.CallExpr:
		f.render(sb, x.Fun)
		sb.WriteString("(")
		for i, a := range x.Args {
			if i > 0 {
				sb.WriteString(", ")
			}
			f.render(sb, a)
		}
		sb.WriteString(")")
	case *ast.IndexExpr:
		f.render(sb, x.X)
		sb.WriteString("[")
		f.render(sb, x.Index)
		sb.WriteString("]")
	case *ast.BasicLit:
		sb.WriteString(x.Value)
	case *ast.TypeAssertExpr:
		f.render(sb, x.X)
		sb.WriteString(".(")
		if x.Type == nil {
			sb.WriteString("type")
		} else {
			sb.WriteString(types.ExprString(x.Type))
		}
		sb.WriteString(")")
	case *ast.FuncLit:
		p := f.Fset.Position(x.Pos())
		fmt.Fprintf(sb, "func@%d:%d", p.Line, p.Column)
	case *ast.CompositeLit:
		p := f.Fset.Position(x.Pos())
		fmt.Fprintf(sb, "lit@%d:%d", p.Line, p.Column)
	default:
		sb.WriteString(types.ExprString(e))
	}
}

// constString returns the constant value of e as a string if e is a typed/untyped constant.
func (f *Func) constOf(e ast.Expr) (string, bool) {
	tv, ok := f.Info.Types[e]
	if !ok || tv.Value == nil {
		return "", false
	}
	return tv.Value.ExactString(), true
}

func (f *Func) isNilExpr(e ast.Expr) bool {
	e = ast.Unparen(e)
	if id, ok := e.(*ast.Ident); ok && id.Name == "nil" {
		_, isNil := f.objOf(id).(*types.Nil)
		return isNil
	}
	return false
}

// isGlobalValue reports whether e denotes a package-level variable (e.g. an error
// sentinel such as context.DeadlineExceeded) and returns its qualified name.
func (f *Func) globalName(e ast.Expr) (string, bool) {
	e = ast.Unparen(e)
	var id *ast.Ident
	switch x := e.(type) {
	case *ast.Ident:
		id = x
	case *ast.SelectorExpr:
		if pid, ok := x.X.(*ast.Ident); ok {
			if _, isPkg := f.objOf(pid).(*types.PkgName); isPkg {
				id = x.Sel
			}
		}
	}
	if id == nil {
		return "", false
	}
	o := f.objOf(id)
	v, ok := o.(*types.Var)
	if !ok || v.Pkg() == nil || v.Parent() != v.Pkg().Scope() {
		return "", false
	}
	return v.Pkg().Path() + "." + v.Name(), true
}

// Atom canonicalises an atomic boolean condition into (key, negated).
// The returned key is the positive form; neg says whether e is its negation.
func (f *Func) Atom(e ast.Expr) (key string, neg bool) {
	e = ast.Unparen(e)
	switch x := e.(type) {
	case *ast.UnaryExpr:
		if x.Op == token.NOT {
			k, n := f.Atom(x.X)
			return k, !n
		}
	case *ast.BinaryExpr:
		switch x.Op {
		case token.EQL, token.NEQ:
			neg = x.Op == token.NEQ
			return f.EqKey(x.X, x.Y), neg
		case token.LSS:
			return "lt:" + f.Render(x.X) + "<" + f.Render(x.Y), false
		case token.GEQ:
			return "lt:" + f.Render(x.X) + "<" + f.Render(x.Y), true
		case token.GTR:
			return "lt:" + f.Render(x.Y) + "<" + f.Render(x.X), false
		case token.LEQ:
			return "lt:" + f.Render(x.Y) + "<" + f.Render(x.X), true
		}
	case *ast.Ident:
		if c, ok := f.constOf(x); ok {
			return "const:" + c, false
		}
		return "v:" + f.Render(x), false
	case *ast.SelectorExpr:
		// a boolean field: the same key an assignment to it learns
		if tv, ok := f.Info.Types[x]; ok && tv.Type != nil {
			if b, ok := tv.Type.Underlying().(*types.Basic); ok && b.Info()&types.IsBoolean != 0 {
				if c, ok := f.constOf(x); ok {
					return "const:" + c, false
				}
				return "v:" + f.Render(x), false
			}
		}
	case *ast.CallExpr:
		return "call:" + f.Render(x), false
	}
	return "expr:" + f.Render(e), false
}

// EqKey is the key of the fact "a == b".
func (f *Func) EqKey(a, b ast.Expr) string {
	a, b = ast.Unparen(a), ast.Unparen(b)
	if f.isNilExpr(b) {
		return "nil:" + f.Render(a)
	}
	if f.isNilExpr(a) {
		return "nil:" + f.Render(b)
	}
	// boolean comparison with constant true/false is handled by the caller via Atom on
	// the whole expression; here: constants on one side.
	if c, ok := f.constOf(b); ok {
		return "eq:" + f.Render(a) + "==" + c
	}
	if c, ok := f.constOf(a); ok {
		return "eq:" + f.Render(b) + "==" + c
	}
	if g, ok := f.globalName(b); ok {
		return "eq:" + f.Render(a) + "==@" + g
	}
	if g, ok := f.globalName(a); ok {
		return "eq:" + f.Render(b) + "==@" + g
	}
	ra, rb := f.Render(a), f.Render(b)
	if rb < ra {
		ra, rb = rb, ra
	}
	return "eq:" + ra + "==" + rb
}

// NilKey is the key of the fact "e == nil".
func (f *Func) NilKey(e ast.Expr) string { return "nil:" + f.Render(e) }

// VarKey is the key of the fact "boolean variable e is true".
func (f *Func) VarKey(e ast.Expr) string { return "v:" + f.Render(e) }

// CallKey is the key of the fact "call e returned true".
func (f *Func) CallKey(e ast.Expr) string { return "call:" + f.Render(e) }
