package flow

import (
	"go/ast"
	"go/token"
	"go/types"
	"strings"
)

// Inlining (opt-in, Config.Inline): a call to a function whose body the rule hands over is
// interpreted in place, so that a block or a condition moved into a helper ("extract function")
// is analysed exactly like the original code. Calls are inlined where the engine can continue with
// several states: expression statements, `x, y := h(..)`, `return h(..)`, and calls that are atoms
// of a branch condition (`if h(..)`, `if !c.m()`, `if h(..) != nil`). Other calls stay opaque.
//
// Binding. A parameter (or receiver) bound to a *stable path* (identifier or selector chain) that
// the callee does not reassign is an alias of that path: on entry every fact that mentions the
// path is copied to the parameter's name, on exit every fact that mentions the parameter is copied
// back to the path (the parameter-named copies stay, with the caller's variables added to their
// dependencies, so that rules may ask in either vocabulary). Other arguments are assigned to the
// parameter like `p := arg`. Results are assigned from the callee's return expressions; for
// `return h(..)` the facts are attached to the rendering of the call expression and Exit.Inner is
// the innermost callee return statement.

// inlExit is one return exit of an inlined call.
type inlExit struct {
	st      *State
	ret     *ast.ReturnStmt
	results []ast.Expr // one expression per result, nil when they cannot be named
}

const maxInlineDepth = 4

// inlTarget returns the callee body to interpret for call, or nil.
func (e *Engine) inlTarget(x ast.Expr) (*ast.CallExpr, *Func, *types.Func) {
	if e.cfg.Inline == nil || x == nil {
		return nil, nil, nil
	}
	call, ok := ast.Unparen(x).(*ast.CallExpr)
	if !ok || call.Ellipsis.IsValid() {
		return nil, nil, nil
	}
	if len(e.inlineStack) >= maxInlineDepth {
		return nil, nil, nil
	}
	callee, ok := e.Fn.Callee(call).(*types.Func)
	var fn *Func
	if !ok {
		// a closure held in a local that is assigned exactly once: interpreted in place like a helper (it shares
		// the variables it captures with the caller, so nothing has to be renamed)
		lit, isLit := e.Fn.FuncValue(call.Fun).(*ast.FuncLit)
		if !isLit {
			// a func parameter of an inlined helper that was handed a literal: withLock(func() {..}) { ..; fn(); .. }
			if id, ok := ast.Unparen(call.Fun).(*ast.Ident); ok {
				lit, isLit = e.boundLits[e.Fn.objOf(id)]
			}
		}
		if !isLit || !e.cfg.InlineClosures {
			return nil, nil, nil
		}
		callee = e.litFunc(lit)
		if callee == nil {
			return nil, nil, nil
		}
		fn = e.Fn.Lit(lit)
	}
	for _, c := range e.inlineStack {
		if c == callee {
			return nil, nil, nil
		}
	}
	if fn == nil {
		fn = e.cfg.Inline(call, callee)
	}
	if fn == nil || fn.Body == nil || fn.Info != e.Fn.Info || fn.Type == nil {
		return nil, nil, nil
	}
	sig, _ := callee.Type().(*types.Signature)
	if sig == nil || sig.Variadic() || sig.Params().Len() != len(call.Args) {
		return nil, nil, nil
	}
	return call, fn, callee
}

type inlBind struct {
	p      *ast.Ident
	a      ast.Expr
	stable bool
	back   bool // copy facts back to the argument path on exit
}

func stablePath(x ast.Expr) bool {
	switch t := ast.Unparen(x).(type) {
	case *ast.Ident:
		return t.Name != "_" && t.Name != "nil"
	case *ast.SelectorExpr:
		return stablePath(t.X)
	}
	return false
}

// writtenIn reports whether variable o is assigned, inc/dec'ed or has its address taken in body;
// rooted also counts writes through it (o.f = .., o[i] = ..).
func (e *Engine) writtenIn(body ast.Node, o types.Object) (direct, rooted bool) {
	root := func(x ast.Expr) (*ast.Ident, bool) {
		deep := false
		for {
			switch t := ast.Unparen(x).(type) {
			case *ast.Ident:
				return t, deep
			case *ast.SelectorExpr:
				x, deep = t.X, true
			case *ast.IndexExpr:
				x, deep = t.X, true
			case *ast.StarExpr:
				x, deep = t.X, true
			default:
				return nil, false
			}
		}
	}
	mark := func(x ast.Expr) {
		if id, deep := root(x); id != nil && e.Fn.objOf(id) == o {
			if deep {
				rooted = true
			} else {
				direct = true
			}
		}
	}
	ast.Inspect(body, func(n ast.Node) bool {
		switch s := n.(type) {
		case *ast.AssignStmt:
			for _, l := range s.Lhs {
				mark(l)
			}
		case *ast.IncDecStmt:
			mark(s.X)
		case *ast.RangeStmt:
			if s.Key != nil {
				mark(s.Key)
			}
			if s.Value != nil {
				mark(s.Value)
			}
		case *ast.UnaryExpr:
			if s.Op == token.AND {
				if id, _ := root(s.X); id != nil && e.Fn.objOf(id) == o {
					direct = true
				}
			}
		}
		return true
	})
	return
}

func refLike(t types.Type) bool {
	switch t.Underlying().(type) {
	case *types.Pointer, *types.Interface, *types.Map, *types.Slice, *types.Chan, *types.Signature:
		return true
	}
	return false
}

// binds pairs the callee's receiver and parameters with the call's operands.
func (e *Engine) binds(call *ast.CallExpr, fn *Func) ([]inlBind, bool) {
	var out []inlBind
	add := func(p *ast.Ident, a ast.Expr) {
		if p == nil || p.Name == "_" {
			return
		}
		o := e.Fn.objOf(p)
		if o == nil {
			return
		}
		b := inlBind{p: p, a: a}
		direct, rooted := e.writtenIn(fn.Body, o)
		_, isConst := e.Fn.constOf(a)
		if stablePath(a) && !direct && !isConst {
			if _, isGlobal := e.Fn.globalName(a); !isGlobal || true {
				b.stable = true
				b.back = refLike(o.Type()) || !rooted
			}
		}
		out = append(out, b)
	}
	if fd, ok := fn.Node.(*ast.FuncDecl); ok && fd.Recv != nil && len(fd.Recv.List) == 1 {
		sel, ok := ast.Unparen(call.Fun).(*ast.SelectorExpr)
		if !ok {
			// a method value held in a local: the receiver is the operand of the method value
			sel, ok = e.Fn.FuncValue(call.Fun).(*ast.SelectorExpr)
		}
		if !ok {
			return nil, false
		}
		if s := e.Fn.Info.Selections[sel]; s == nil || s.Kind() != types.MethodVal {
			return nil, false // method expression T.m(x, ..): not handled
		}
		if len(fd.Recv.List[0].Names) == 1 {
			add(fd.Recv.List[0].Names[0], sel.X)
		}
	}
	i := 0
	for _, fld := range fn.Type.Params.List {
		if len(fld.Names) == 0 {
			i++
			continue
		}
		for _, name := range fld.Names {
			if i >= len(call.Args) {
				return nil, false
			}
			add(name, call.Args[i])
			i++
		}
	}
	return out, i == len(call.Args)
}

// inline interprets call's callee from st and returns its return exits. Panic exits of the callee
// are handed to exit.
// mid, when given, refines every return exit inside the callee's vocabulary (before facts are copied back).
func (e *Engine) inline(st *State, call *ast.CallExpr, fn *Func, callee *types.Func, exit exitFn, mid func(*State, *inlExit) []*State) []inlExit {
	if _, isLit := ast.Unparen(call.Fun).(*ast.FuncLit); !isLit {
		e.evalCalls(st, call.Fun, exit)
	}
	for _, a := range call.Args {
		e.evalCalls(st, a, exit)
	}
	st.Set(e.Fn.CallKey(call), Unknown)
	e.res.At[call] = append(e.res.At[call], st.clone(""))
	if e.cfg.OnCall != nil {
		e.cfg.OnCall(st, call, callee, false)
	}
	binds, ok := e.binds(call, fn)
	if !ok {
		// cannot bind: treat as an opaque call
		if !e.cfg.NoHavoc && (e.cfg.Pure == nil || !e.cfg.Pure(call, callee)) {
			e.killHeap(st)
		}
		return []inlExit{{st: st}}
	}
	if !e.indexed[fn.Body] {
		e.indexConds(fn.Body)
		e.indexed[fn.Body] = true
		e.res.Inlined = append(e.res.Inlined, fn.Name)
	}
	states := []*State{st.clone(e.Fn.Pos(call.Pos()) + " enter " + callee.Name())}
	savedLits := map[types.Object]*ast.FuncLit{}
	for _, b := range binds {
		// a function literal (or a local holding one) handed to a func parameter: calls of the parameter run it
		var lit *ast.FuncLit
		switch t := ast.Unparen(b.a).(type) {
		case *ast.FuncLit:
			lit = t
		case *ast.Ident:
			lit, _ = e.Fn.FuncValue(t).(*ast.FuncLit)
			if lit == nil {
				lit = e.boundLits[e.Fn.objOf(t)]
			}
		}
		if lit != nil {
			po := e.Fn.objOf(b.p)
			if e.boundLits == nil {
				e.boundLits = map[types.Object]*ast.FuncLit{}
			}
			savedLits[po] = e.boundLits[po]
			e.boundLits[po] = lit
		}
	}
	defer func() {
		for po, old := range savedLits {
			if old == nil {
				delete(e.boundLits, po)
			} else {
				e.boundLits[po] = old
			}
		}
	}()
	for _, b := range binds {
		po := e.Fn.objOf(b.p)
		var next []*State
		for _, s := range states {
			e.KillVar(s, po)
			if b.stable {
				e.transfer(s, e.Fn.Render(b.a), e.Fn.Render(b.p), nil, b.p)
				next = append(next, s)
			} else {
				next = append(next, e.assignOne(s, b.p, ast.Unparen(b.a), exit)...)
			}
		}
		states = next
	}
	var resultIDs []ast.Expr
	if fn.Type.Results != nil {
		for _, fld := range fn.Type.Results.List {
			for _, name := range fld.Names {
				resultIDs = append(resultIDs, name)
				if name.Name == "_" {
					continue
				}
				for _, s := range states {
					e.killExpr(s, name)
					e.learnZero(s, name)
				}
			}
		}
	}
	nres := 0
	if sig, ok := callee.Type().(*types.Signature); ok {
		nres = sig.Results().Len()
	}
	ev := &InlineEvent{Call: call, Callee: callee, Fn: fn}
	for _, b := range binds {
		ev.Params = append(ev.Params, b.p)
		ev.Args = append(ev.Args, b.a)
	}
	if e.cfg.OnInline != nil {
		enter := *ev
		enter.Enter = true
		for _, s := range states {
			e.cfg.OnInline(s, &enter)
		}
	}
	var outs []inlExit
	e.inlineStack = append(e.inlineStack, callee)
	e.typeStack = append(e.typeStack, fn.Type)
	e.run(fn.Body, states, func(s2 *State, kind ExitKind, ret *ast.ReturnStmt, at ast.Node) {
		if kind == ExitPanic {
			if exit != nil {
				// the panic leaves the callee: the caller's frame is current again while its defers run
				ts, is := e.typeStack, e.inlineStack
				e.typeStack, e.inlineStack = ts[:len(ts)-1], is[:len(is)-1]
				exit(s2, ExitPanic, nil, at)
				e.typeStack, e.inlineStack = ts, is
			}
			return
		}
		o := inlExit{ret: ret}
		switch {
		case ret != nil && len(ret.Results) == nres:
			o.results = ret.Results
		case (ret == nil || len(ret.Results) == 0) && len(resultIDs) == nres:
			o.results = resultIDs
		}
		if nres == 0 {
			o.results = nil
		}
		mids := []*State{s2}
		if mid != nil {
			mids = mid(s2.clone(""), &o)
		}
		for _, sm := range mids {
			s3 := sm.clone(e.Fn.Pos(call.Pos()) + " leave " + callee.Name())
			for _, b := range binds {
				if b.stable && b.back {
					e.transfer(s3, e.Fn.Render(b.p), e.Fn.Render(b.a), e.Fn.objOf(b.p), b.a)
				}
			}
			if e.cfg.OnInline != nil {
				leave := *ev
				leave.Results, leave.Return = o.results, ret
				e.cfg.OnInline(s3, &leave)
			}
			oo := o
			oo.st = s3
			outs = append(outs, oo)
		}
	})
	e.typeStack = e.typeStack[:len(e.typeStack)-1]
	e.inlineStack = e.inlineStack[:len(e.inlineStack)-1]
	return outs
}

// transfer copies every fact whose key mentions the token `from` to the key with `to` in its place.
func (e *Engine) transfer(st *State, from, to string, strip types.Object, extra ...ast.Expr) {
	if from == to || from == "" {
		return
	}
	type kv struct {
		k string
		v Val
	}
	var add []kv
	for k, v := range st.facts {
		if v == Unknown || !strings.Contains(k, from) {
			continue
		}
		nk, ok := replaceToken(k, from, to)
		if !ok {
			continue
		}
		nk = canonEq(nk)
		d := &factDeps{vars: map[types.Object]bool{}}
		if od := e.deps[k]; od != nil {
			for o := range od.vars {
				if o != strip {
					d.vars[o] = true
				}
			}
			d.heap = od.heap
		} else {
			continue // event facts of rules are not renamed
		}
		for _, x := range extra {
			e.collectDeps(d, x)
		}
		// the dependencies of a key are shared by all states: a key that exists keeps its own (merging the
		// parameter in would make the next entry of the helper kill the caller's fact)
		if e.deps[nk] == nil {
			e.deps[nk] = d
		}
		add = append(add, kv{nk, v})
	}
	for _, a := range add {
		st.Set(a.k, a.v)
	}
}

func isIdentChar(c byte) bool {
	return c == '_' || (c >= '0' && c <= '9') || (c >= 'a' && c <= 'z') || (c >= 'A' && c <= 'Z') || c >= 0x80
}

// replaceToken replaces the occurrences of tok in s that are not part of a longer identifier /
// position (preceded by an identifier character or followed by a digit).
func replaceToken(s, tok, repl string) (string, bool) {
	var sb strings.Builder
	changed := false
	i := 0
	for i < len(s) {
		j := strings.Index(s[i:], tok)
		if j < 0 {
			break
		}
		j += i
		end := j + len(tok)
		okBefore := j == 0 || !isIdentChar(s[j-1])
		okAfter := end == len(s) || !(s[end] >= '0' && s[end] <= '9')
		if last := tok[len(tok)-1]; !(last >= '0' && last <= '9') && end < len(s) && isIdentChar(s[end]) {
			okAfter = false // the token ends in a name: `a.b` must not match `a.bc`
		}
		if okBefore && okAfter {
			sb.WriteString(s[i:j])
			sb.WriteString(repl)
			changed = true
		} else {
			sb.WriteString(s[i:end])
		}
		i = end
	}
	sb.WriteString(s[i:])
	return sb.String(), changed
}

// canonEq restores the operand order EqKey uses for `eq:a==b` keys between two expressions.
func canonEq(k string) string {
	if !strings.HasPrefix(k, "eq:") {
		return k
	}
	i := strings.LastIndex(k, "==")
	if i < 0 {
		return k
	}
	a, b := k[3:i], k[i+2:]
	if isConstName(b) {
		return k
	}
	if b < a {
		a, b = b, a
	}
	return "eq:" + a + "==" + b
}

// litFunc returns the synthetic function object that stands for a function literal (one per literal).
func (e *Engine) litFunc(lit *ast.FuncLit) *types.Func {
	if o := e.litFuncs[lit]; o != nil {
		return o
	}
	tv, ok := e.Fn.Info.Types[lit]
	if !ok {
		return nil
	}
	sig, ok := tv.Type.(*types.Signature)
	if !ok {
		return nil
	}
	var pkg *types.Package
	if e.Fn.Pkg != nil {
		pkg = e.Fn.Pkg.Types
	}
	o := types.NewFunc(lit.Pos(), pkg, "func@"+e.Fn.Pos(lit.Pos()), sig)
	if e.litFuncs == nil {
		e.litFuncs = map[*ast.FuncLit]*types.Func{}
	}
	e.litFuncs[lit] = o
	return o
}
