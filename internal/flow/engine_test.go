package flow

import (
	"go/ast"
	"go/importer"
	"go/parser"
	"go/token"
	"go/types"
	"strings"
	"testing"

	"golang.org/x/tools/go/packages"
)

// fixture type-checks src and returns the Func named name.
func fixture(t *testing.T, src, name string) *Func {
	t.Helper()
	fset := token.NewFileSet()
	file, err := parser.ParseFile(fset, "fix.go", src, 0)
	if err != nil {
		t.Fatal(err)
	}
	info := &types.Info{Types: map[ast.Expr]types.TypeAndValue{}, Defs: map[*ast.Ident]types.Object{}, Uses: map[*ast.Ident]types.Object{},
		Selections: map[*ast.SelectorExpr]*types.Selection{}, Implicits: map[ast.Node]types.Object{}, Scopes: map[ast.Node]*types.Scope{}}
	conf := types.Config{Importer: importer.ForCompiler(fset, "source", nil)}
	tp, err := conf.Check("fix", fset, []*ast.File{file}, info)
	if err != nil {
		t.Fatal(err)
	}
	pkg := &packages.Package{PkgPath: "fix", Fset: fset, Syntax: []*ast.File{file}, Types: tp, TypesInfo: info}
	for _, d := range file.Decls {
		if fd, ok := d.(*ast.FuncDecl); ok && fd.Name.Name == name {
			return NewFunc(pkg, fd)
		}
	}
	t.Fatalf("no func %s", name)
	return nil
}

// callsNamed returns the call expressions to function `name` in f.
func callsNamed(f *Func, name string) []*ast.CallExpr {
	var out []*ast.CallExpr
	ast.Inspect(f.Body, func(n ast.Node) bool {
		if c, ok := n.(*ast.CallExpr); ok {
			if id, ok := c.Fun.(*ast.Ident); ok && id.Name == name {
				out = append(out, c)
			}
		}
		return true
	})
	return out
}

func hasFact(st *State, sub string, v Val) bool {
	for _, f := range st.Facts() {
		if strings.Contains(f, sub) && strings.HasSuffix(f, "="+v.String()) {
			return true
		}
	}
	return false
}

const srcBranch = `package fix
func ok() bool
func sink()
func f(a, b bool, p *int) {
	if a && !b {
		sink()
	}
	if p == nil {
		return
	}
	sink()
}`

func TestBranchLearning(t *testing.T) {
	f := fixture(t, srcBranch, "f")
	res, err := Analyze(f, Config{})
	if err != nil {
		t.Fatal(err)
	}
	s := callsNamed(f, "sink")
	for _, st := range res.At[s[0]] {
		if !hasFact(st, "v:a", True) || !hasFact(st, "v:b", False) {
			t.Errorf("first sink: want a=T,b=F got %v", st.Facts())
		}
	}
	if len(res.At[s[0]]) != 1 {
		t.Errorf("first sink: want 1 state, got %d", len(res.At[s[0]]))
	}
	for _, st := range res.At[s[1]] {
		if !hasFact(st, "nil:p", False) {
			t.Errorf("second sink: want p non-nil, got %v", st.Facts())
		}
	}
	// a&&!b false splits into a=F and a=T,b=T: 3 states before the nil test → 3 at second sink
	if len(res.At[s[1]]) != 3 {
		t.Errorf("second sink: want 3 states, got %d", len(res.At[s[1]]))
	}
}

const srcLoop = `package fix
func match(x int) bool
func sink()
func g(xs []int) bool {
	seen := false
	for _, x := range xs {
		if !match(x) {
			continue
		}
		seen = true
		sink()
	}
	return seen
}`

func TestLoopFreshness(t *testing.T) {
	f := fixture(t, srcLoop, "g")
	res, err := Analyze(f, Config{})
	if err != nil {
		t.Fatal(err)
	}
	s := callsNamed(f, "sink")[0]
	for _, st := range res.At[s] {
		if !hasFact(st, "call:match(", True) {
			t.Errorf("sink reached without match=T: %v", st.Facts())
		}
	}
	// the match fact must not survive into the next iteration's test
	m := callsNamed(f, "match")[0]
	for _, st := range res.At[m] {
		if hasFact(st, "call:match(", True) || hasFact(st, "call:match(", False) {
			t.Errorf("stale match fact at the next evaluation: %v", st.Facts())
		}
	}
	// exits: seen=T and seen=F both possible
	var sawT, sawF bool
	for _, ex := range res.Exits {
		if hasFact(ex.State, "v:seen", True) {
			sawT = true
		}
		if hasFact(ex.State, "v:seen", False) {
			sawF = true
		}
	}
	if !sawT || !sawF {
		t.Errorf("exits should cover seen=T and seen=F (T=%v F=%v)", sawT, sawF)
	}
}

const srcDefer = `package fix
func risky()
func record()
func h() (err error) {
	panicked := true
	defer func() {
		if panicked {
			record()
		}
		if r := recover(); r != nil {
			err = nil
		}
	}()
	risky()
	panicked = false
	return nil
}`

func TestDeferAndPanic(t *testing.T) {
	f := fixture(t, srcDefer, "h")
	res, err := Analyze(f, Config{
		MayPanic: func(call *ast.CallExpr, callee types.Object) bool {
			id, ok := call.Fun.(*ast.Ident)
			return ok && id.Name == "risky"
		},
		OnCall: func(st *State, call *ast.CallExpr, callee types.Object, deferred bool) {
			if id, ok := call.Fun.(*ast.Ident); ok && id.Name == "record" {
				st.Set("ev:recorded", True)
			}
		},
	})
	if err != nil {
		t.Fatal(err)
	}
	var normal, recovered int
	for _, ex := range res.Exits {
		switch {
		case ex.State.Is(Recovered, True):
			recovered++
			if !ex.State.Is("ev:recorded", True) {
				t.Errorf("panic exit without record(): %v", ex.State.Facts())
			}
			if ex.Kind != ExitReturn {
				t.Errorf("recovered panic should leave as a normal return")
			}
		default:
			normal++
			if ex.State.Is("ev:recorded", True) {
				t.Errorf("normal exit must not record: %v", ex.State.Facts())
			}
		}
	}
	if normal != 1 || recovered != 1 {
		t.Errorf("want 1 normal and 1 recovered exit, got %d/%d", normal, recovered)
	}
}

const srcSwitch = `package fix
func sink()
const A, B = 1, 2
func s(x int, next string) {
	switch x {
	case A:
		sink()
	case B:
	default:
	}
	if next == "" {
		return
	}
	if next == "END" {
		sink()
	}
}`

func TestSwitchAndStrings(t *testing.T) {
	f := fixture(t, srcSwitch, "s")
	res, err := Analyze(f, Config{})
	if err != nil {
		t.Fatal(err)
	}
	s := callsNamed(f, "sink")
	for _, st := range res.At[s[0]] {
		if !hasFact(st, "==1", True) {
			t.Errorf("case A: %v", st.Facts())
		}
	}
	for _, st := range res.At[s[1]] {
		if !hasFact(st, `=="END"`, True) || !hasFact(st, `==""`, False) {
			t.Errorf("END branch: %v", st.Facts())
		}
	}
}

const srcAssign = `package fix
func cond() bool
func sink()
func a() {
	ok := cond()
	flag := !ok
	if flag {
		return
	}
	sink()
}`

func TestBoolAssignCorrelation(t *testing.T) {
	f := fixture(t, srcAssign, "a")
	res, err := Analyze(f, Config{})
	if err != nil {
		t.Fatal(err)
	}
	s := callsNamed(f, "sink")[0]
	if len(res.At[s]) == 0 {
		t.Fatal("sink unreachable")
	}
	for _, st := range res.At[s] {
		if !hasFact(st, "v:ok", True) || !hasFact(st, "call:cond()", True) {
			t.Errorf("sink: want ok=T and cond()=T, got %v", st.Facts())
		}
	}
}

const srcHavoc = `package fix
type T struct{ n int; p *int }
func other()
func sink()
func hv(t *T) {
	if t.p == nil {
		return
	}
	other()
	sink()
}`

func TestHeapHavoc(t *testing.T) {
	f := fixture(t, srcHavoc, "hv")
	res, _ := Analyze(f, Config{})
	s := callsNamed(f, "sink")[0]
	for _, st := range res.At[s] {
		if hasFact(st, "nil:", False) {
			t.Errorf("field fact should have been havocked by other(): %v", st.Facts())
		}
	}
	res, _ = Analyze(f, Config{NoHavoc: true})
	for _, st := range res.At[s] {
		if !hasFact(st, "nil:", False) {
			t.Errorf("with NoHavoc the field fact must survive: %v", st.Facts())
		}
	}
}
