package flow

import (
	"go/ast"
	"go/importer"
	"go/parser"
	"go/token"
	"go/types"
	"strings"
	"testing"

	"golang.org/x/tools/go/packages"
)

// fixture type-checks src and returns the Func named name.
func fixture(t *testing.T, src, name string) *Func {
	t.Helper()
	fset := token.NewFileSet()
	file, err := parser.ParseFile(fset, "fix.go", src, 0)
	if err != nil {
		t.Fatal(err)
	}
	info := &types.Info{Types: map[ast.Expr]types.TypeAndValue{}, Defs: map[*ast.Ident]types.Object{}, Uses: map[*ast.Ident]types.Object{},
		Selections: map[*ast.SelectorExpr]*types.Selection{}, Implicits: map[ast.Node]types.Object{}, Scopes: map[ast.Node]*types.Scope{}}
	conf := types.Config{Importer: importer.ForCompiler(fset, "source", nil)}
	tp, err := conf.Check("fix", fset, []*ast.File{file}, info)
	if err != nil {
		t.Fatal(err)
	}
	pkg := &packages.Package{PkgPath: "fix", Fset: fset, Syntax: []*ast.File{file}, Types: tp, TypesInfo: info}
	for _, d := range file.Decls {
		if fd, ok := d.(*ast.FuncDecl); ok && fd.Name.Name == name {
			return NewFunc(pkg, fd)
		}
	}
	t.Fatalf("no func %s", name)
	return nil
}

// callsNamed returns the call expressions to function `name` in f.
func callsNamed(f *Func, name string) []*ast.CallExpr {
	var out []*ast.CallExpr
	ast.Inspect(f.Body, func(n ast.Node) bool {
		if c, ok := n.(*ast.CallExpr); ok {
			if id, ok := c.Fun.(*ast.Ident); ok && id.Name == name {
				out = append(out, c)
			}
		}
		return true
	})
	return out
}

func hasFact(st *State, sub string, v Val) bool {
	for _, f := range st.Facts() {
		if strings.Contains(f, sub) && strings.HasSuffix(f, "="+v.String()) {
			return true
		}
	}
	return false
}

const srcBranch = `package fix
func ok() bool
func sink()
func f(a, b bool, p *int) {
	if a && !b {
		sink()
	}
	if p == nil {
		return
	}
	sink()
}`

func TestBranchLearning(t *testing.T) {
	f := fixture(t, srcBranch, "f")
	res, err := Analyze(f, Config{})
	if err != nil {
		t.Fatal(err)
	}
	s := callsNamed(f, "sink")
	for _, st := range res.At[s[0]] {
		if !hasFact(st, "v:a", True) || !hasFact(st, "v:b", False) {
			t.Errorf("first sink: want a=T,b=F got %v", st.Facts())
		}
	}
	if len(res.At[s[0]]) != 1 {
		t.Errorf("first sink: want 1 state, got %d", len(res.At[s[0]]))
	}
	for _, st := range res.At[s[1]] {
		if !hasFact(st, "nil:p", False) {
			t.Errorf("second sink: want p non-nil, got %v", st.Facts())
		}
	}
	// a&&!b false splits into a=F and a=T,b=T: 3 states before the nil test → 3 at second sink
	if len(res.At[s[1]]) != 3 {
		t.Errorf("second sink: want 3 states, got %d", len(res.At[s[1]]))
	}
}

const srcLoop = `package fix
func match(x int) bool
func sink()
func g(xs []int) bool {
	seen := false
	for _, x := range xs {
		if !match(x) {
			continue
		}
		seen = true
		sink()
	}
	return seen
}`

func TestLoopFreshness(t *testing.T) {
	f := fixture(t, srcLoop, "g")
	res, err := Analyze(f, Config{})
	if err != nil {
		t.Fatal(err)
	}
	s := callsNamed(f, "sink")[0]
	for _, st := range res.At[s] {
		if !hasFact(st, "call:match(", True) {
			t.Errorf("sink reached without match=T: %v", st.Facts())
		}
	}
	// the match fact must not survive into the next iteration's test
	m := callsNamed(f, "match")[0]
	for _, st := range res.At[m] {
		if hasFact(st, "call:match(", True) || hasFact(st, "call:match(", False) {
			t.Errorf("stale match fact at the next evaluation: %v", st.Facts())
		}
	}
	// exits: seen=T and seen=F both possible
	var sawT, sawF bool
	for _, ex := range res.Exits {
		if hasFact(ex.State, "v:seen", True) {
			sawT = true
		}
		if hasFact(ex.State, "v:seen", False) {
			sawF = true
		}
	}
	if !sawT || !sawF {
		t.Errorf("exits should cover seen=T and seen=F (T=%v F=%v)", sawT, sawF)
	}
}

const srcDefer = `package fix
func risky()
func record()
func h() (err error) {
	panicked := true
	defer func() {
		if panicked {
			record()
		}
		if r := recover(); r != nil {
			err = nil
		}
	}()
	risky()
	panicked = false
	return nil
}`

func TestDeferAndPanic(t *testing.T) {
	f := fixture(t, srcDefer, "h")
	res, err := Analyze(f, Config{
		MayPanic: func(call *ast.CallExpr, callee types.Object) bool {
			id, ok := call.Fun.(*ast.Ident)
			return ok && id.Name == "risky"
		},
		OnCall: func(st *State, call *ast.CallExpr, callee types.Object, deferred bool) {
			if id, ok := call.Fun.(*ast.Ident); ok && id.Name == "record" {
				st.Set("ev:recorded", True)
			}
		},
	})
	if err != nil {
		t.Fatal(err)
	}
	var normal, recovered int
	for _, ex := range res.Exits {
		switch {
		case ex.State.Is(Recovered, True):
			recovered++
			if !ex.State.Is("ev:recorded", True) {
				t.Errorf("panic exit without record(): %v", ex.State.Facts())
			}
			if ex.Kind != ExitReturn {
				t.Errorf("recovered panic should leave as a normal return")
			}
		default:
			normal++
			if ex.State.Is("ev:recorded", True) {
				t.Errorf("normal exit must not record: %v", ex.State.Facts())
			}
		}
	}
	if normal != 1 || recovered != 1 {
		t.Errorf("want 1 normal and 1 recovered exit, got %d/%d", normal, recovered)
	}
}

const srcSwitch = `package fix
func sink()
const A, B = 1, 2
func s(x int, next string) {
	switch x {
	case A:
		sink()
	case B:
	default:
	}
	if next == "" {
		return
	}
	if next == "END" {
		sink()
	}
}`

func TestSwitchAndStrings(t *testing.T) {
	f := fixture(t, srcSwitch, "s")
	res, err := Analyze(f, Config{})
	if err != nil {
		t.Fatal(err)
	}
	s := callsNamed(f, "sink")
	for _, st := range res.At[s[0]] {
		if !hasFact(st, "==1", True) {
			t.Errorf("case A: %v", st.Facts())
		}
	}
	for _, st := range res.At[s[1]] {
		if !hasFact(st, `=="END"`, True) || !hasFact(st, `==""`, False) {
			t.Errorf("END branch: %v", st.Facts())
		}
	}
}

const srcAssign = `package fix
func cond() bool
func sink()
func a() {
	ok := cond()
	flag := !ok
	if flag {
		return
	}
	sink()
}`

func TestBoolAssignCorrelation(t *testing.T) {
	f := fixture(t, srcAssign, "a")
	res, err := Analyze(f, Config{})
	if err != nil {
		t.Fatal(err)
	}
	s := callsNamed(f, "sink")[0]
	if len(res.At[s]) == 0 {
		t.Fatal("sink unreachable")
	}
	for _, st := range res.At[s] {
		if !hasFact(st, "v:ok", True) || !hasFact(st, "call:cond()", True) {
			t.Errorf("sink: want ok=T and cond()=T, got %v", st.Facts())
		}
	}
}

const srcHavoc = `package fix
type T struct{ n int; p *int }
func other()
func sink()
func hv(t *T) {
	if t.p == nil {
		return
	}
	other()
	sink()
}`

func TestHeapHavoc(t *testing.T) {
	f := fixture(t, srcHavoc, "hv")
	res, _ := Analyze(f, Config{})
	s := callsNamed(f, "sink")[0]
	for _, st := range res.At[s] {
		if hasFact(st, "nil:", False) {
			t.Errorf("field fact should have been havocked by other(): %v", st.Facts())
		}
	}
	res, _ = Analyze(f, Config{NoHavoc: true})
	for _, st := range res.At[s] {
		if !hasFact(st, "nil:", False) {
			t.Errorf("with NoHavoc the field fact must survive: %v", st.Facts())
		}
	}
}

const srcInline = `package fix
type T struct{ ok bool; p *int; sess *int }
func sink()
func mark()
func (t *T) owns() bool { return t.ok && t.p != nil }
func (t *T) cleanup() {
	if t.sess == nil {
		return
	}
	mark()
}
func pick(a *int) *int {
	if a == nil {
		return nil
	}
	return a
}
func tail(t *T) *int { return pick(t.p) }
func errOf(b bool) (err error) {
	if b {
		err = errSentinel
	}
	return
}
var errSentinel error
func f(t *T, b bool) {
	if !t.owns() {
		return
	}
	sink()          // t.ok && t.p != nil known here
	t.cleanup()
	x := pick(t.p)
	_ = x
	if err := errOf(b); err != nil {
		sink()
	}
}`

func inlineAll(f *Func) func(*ast.CallExpr, *types.Func) *Func {
	decls := map[types.Object]*ast.FuncDecl{}
	for _, file := range f.Pkg.Syntax {
		for _, d := range file.Decls {
			if fd, ok := d.(*ast.FuncDecl); ok && fd.Body != nil {
				decls[f.Info.Defs[fd.Name]] = fd
			}
		}
	}
	return func(call *ast.CallExpr, callee *types.Func) *Func {
		if fd := decls[callee]; fd != nil {
			return NewFunc(f.Pkg, fd)
		}
		return nil
	}
}

func TestInlineConditionAndStatement(t *testing.T) {
	f := fixture(t, srcInline, "f")
	marks := 0
	res, err := Analyze(f, Config{NoHavoc: true, Inline: inlineAll(f),
		OnCall: func(st *State, call *ast.CallExpr, callee types.Object, d bool) {
			if callee != nil && callee.Name() == "mark" {
				marks++
				st.Set("ev:marked", True)
			}
		}})
	if err != nil {
		t.Fatal(err)
	}
	sinks := callsNamed(f, "sink")
	// first sink: reached only with t.ok true and t.p non-nil, in the caller's vocabulary
	sts := res.At[sinks[0]]
	if len(sts) == 0 {
		t.Fatal("first sink unreachable")
	}
	for _, st := range sts {
		if !hasFact(st, ".ok", True) || !hasFact(st, "nil:t", False) {
			t.Errorf("facts from the inlined condition missing: %v", st.Facts())
		}
	}
	if marks == 0 {
		t.Errorf("call inside the inlined helper did not fire OnCall")
	}
	// exits: the early return exits do not carry the event, later ones may
	saw := false
	for _, ex := range res.Exits {
		if ex.State.Is("ev:marked", True) {
			saw = true
		}
	}
	if !saw {
		t.Errorf("no exit carries the event set inside the inlined helper")
	}
	// second sink: err != nil only when b is true (named result, bare return)
	for _, st := range res.At[sinks[1]] {
		if !hasFact(st, "v:b", True) {
			t.Errorf("second sink reached without b: %v", st.Facts())
		}
	}
	if len(res.At[sinks[1]]) == 0 {
		t.Errorf("second sink unreachable")
	}
	if len(res.Inlined) < 3 {
		t.Errorf("inlined = %v", res.Inlined)
	}
}

func TestInlineTailCall(t *testing.T) {
	f := fixture(t, srcInline, "tail")
	res, err := Analyze(f, Config{NoHavoc: true, Inline: inlineAll(f)})
	if err != nil {
		t.Fatal(err)
	}
	var nilExit, okExit bool
	for _, ex := range res.Exits {
		if ex.Inner == nil || ex.Return == nil {
			t.Fatalf("tail exit without Inner/Return: %+v", ex)
		}
		call := ex.Return.Results[0]
		switch ex.State.Get(f.NilKey(call)) {
		case True:
			nilExit = true
		default:
			okExit = true
		}
	}
	if !nilExit || !okExit {
		t.Errorf("nilExit=%v okExit=%v", nilExit, okExit)
	}
}

func TestReplaceToken(t *testing.T) {
	got, ok := replaceToken("eq:cur·305:5==c·295:7", "c·295:7", "c·310:7")
	if !ok || got != "eq:cur·305:5==c·310:7" {
		t.Errorf("got %q %v", got, ok)
	}
	if _, ok := replaceToken("nil:c·295:71.x", "c·295:7", "z"); ok {
		t.Errorf("matched inside a longer position")
	}
	if _, ok := replaceToken("nil:ac·295:7.x", "c·295:7", "z"); ok {
		t.Errorf("matched inside a longer name")
	}
	if got, _ := replaceToken("v:t·1:1.ok", "t·1:1", "u·2:2"); got != "v:u·2:2.ok" {
		t.Errorf("got %q", got)
	}
	if canonEq("eq:z==a") != "eq:a==z" || canonEq("eq:z==3") != "eq:z==3" {
		t.Errorf("canonEq")
	}
}

const srcInline2 = `package fix
type S struct{ n int; e error }
var sentinel error
func sink()
func isS(e error) bool { return e == sentinel }
func (s *S) bump() { s.n = 1 }
func (s *S) guard() { if r := recover(); r != nil { s.n = 2 } }
func boom()
func named(b bool) (ok bool, err error) {
	if b {
		return true, nil
	}
	return false, sentinel
}
func g(s *S, x error, b bool) {
	defer s.guard()
	if x == nil {
		return
	}
	if isS(x) {
		sink()           // x == sentinel known in the caller's vocabulary
	}
	h := s.bump
	h()
	boom()
}`

func TestInlineBoolHelperAndMethodValue(t *testing.T) {
	f := fixture(t, srcInline2, "g")
	enters := 0
	res, err := Analyze(f, Config{NoHavoc: true, Inline: inlineAll(f),
		MayPanic: func(call *ast.CallExpr, callee types.Object) bool { return callee != nil && callee.Name() == "boom" },
		OnInline: func(st *State, ev *InlineEvent) {
			if ev.Enter {
				enters++
			}
		}})
	if err != nil {
		t.Fatal(err)
	}
	sinks := callsNamed(f, "sink")
	if len(res.At[sinks[0]]) == 0 {
		t.Fatal("sink unreachable")
	}
	for _, st := range res.At[sinks[0]] {
		if !hasFact(st, "eq:x", True) || !hasFact(st, "nil:x", False) {
			t.Errorf("caller does not know x == sentinel / x != nil at sink: %v", st.Facts())
		}
	}
	// the method value h() is resolved and inlined: s.n == 1 known at some exit; the deferred guard recovers boom's panic
	var sawBump, sawRecovered, sawPanicExit bool
	for _, ex := range res.Exits {
		if hasFact(ex.State, ".n==1", True) {
			sawBump = true
		}
		if ex.State.Is(Recovered, True) && hasFact(ex.State, ".n==2", True) {
			sawRecovered = true
		}
		if ex.Kind == ExitPanic {
			sawPanicExit = true
		}
	}
	if !sawBump || !sawRecovered || sawPanicExit {
		t.Errorf("sawBump=%v sawRecovered=%v sawPanicExit=%v inlined=%v", sawBump, sawRecovered, sawPanicExit, res.Inlined)
	}
	if enters < 3 {
		t.Errorf("OnInline enters = %d", enters)
	}
}

func TestNamedResultsAtReturn(t *testing.T) {
	f := fixture(t, srcInline2, "named")
	res, err := Analyze(f, Config{})
	if err != nil {
		t.Fatal(err)
	}
	for _, ex := range res.Exits {
		okT := hasFact(ex.State, "v:ok", True) && hasFact(ex.State, "nil:err", True)
		okF := hasFact(ex.State, "v:ok", False) && hasFact(ex.State, "nil:err", False)
		if !okT && !okF {
			t.Errorf("named results not assigned at return: %v", ex.State.Facts())
		}
	}
}

const srcClosure = `package fix
func sink()
func g(p *int, n int) {
	ok := false
	check := func(limit int) bool {
		if p == nil {
			return false
		}
		ok = true
		return n < limit
	}
	if !check(10) {
		return
	}
	sink()
	_ = ok
}`

func TestInlineClosure(t *testing.T) {
	f := fixture(t, srcClosure, "g")
	res, err := Analyze(f, Config{NoHavoc: true, InlineClosures: true, Inline: func(*ast.CallExpr, *types.Func) *Func { return nil }})
	if err != nil {
		t.Fatal(err)
	}
	sinks := callsNamed(f, "sink")
	if len(res.At[sinks[0]]) == 0 {
		t.Fatal("sink unreachable")
	}
	for _, st := range res.At[sinks[0]] {
		if !hasFact(st, "nil:p", False) || !hasFact(st, "v:ok", True) {
			t.Errorf("closure not interpreted in place: %v", st.Facts())
		}
	}
}

const srcWithLock = `package fix
type M struct{ n int }
func lock()
func unlock()
func sink()
type run struct{ done bool; p *int; q *int }
func (m *M) withLock(fn func()) {
	lock()
	fn()
	unlock()
}
func g(m *M, x *int) {
	r := &run{q: x}
	if r.done {
		sink() // unreachable: done starts false
	}
	m.withLock(func() {
		m.n = 7
	})
}`

func TestLiteralFieldsAndFuncParam(t *testing.T) {
	f := fixture(t, srcWithLock, "g")
	order := ""
	res, err := Analyze(f, Config{NoHavoc: true, InlineClosures: true, Inline: inlineAll(f),
		OnCall: func(st *State, call *ast.CallExpr, callee types.Object, d bool) {
			if callee != nil && (callee.Name() == "lock" || callee.Name() == "unlock") {
				order += callee.Name() + ";"
			}
		},
		OnNode: func(st *State, n ast.Node) {
			if as, ok := n.(*ast.AssignStmt); ok && len(as.Lhs) == 1 {
				if sel, ok := as.Lhs[0].(*ast.SelectorExpr); ok && sel.Sel.Name == "n" {
					order += "store;"
				}
			}
		}})
	if err != nil {
		t.Fatal(err)
	}
	if len(res.At[callsNamed(f, "sink")[0]]) != 0 {
		t.Errorf("zero value of an omitted bool field not learned")
	}
	if order != "lock;store;unlock;" {
		t.Errorf("literal handed to a func parameter not interpreted where the helper calls it: %q", order)
	}
	for _, ex := range res.Exits {
		if !hasFact(ex.State, ".n==7", True) || !hasFact(ex.State, "nil:r", False) {
			t.Errorf("exit facts: %v", ex.State.Facts())
		}
	}
}
