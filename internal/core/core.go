// Package core holds the obligation bookkeeping shared by all rules: verdicts keyed by
// rule+construct, vacuity guards, known-findings matching, evidence and replay files.
package core

import (
	"encoding/json"
	"fmt"
	"os"
	"path/filepath"
	"sort"
	"strings"
	"time"

	"verif/internal/load"
)

// Verdict of one obligation.
type Verdict string

const (
	Discharged Verdict = "discharged"
	Violated   Verdict = "violated"
	Undecided  Verdict = "undecided"
)

// Obligation is one decided instance of a rule on a construct of the repository.
type Obligation struct {
	Rule      string   `json:"rule"`
	Construct string   `json:"construct"` // package-qualified function / field / site role — never a line number
	Verdict   Verdict  `json:"verdict"`
	Pos       string   `json:"pos,omitempty"` // informational file:line
	Detail    string   `json:"detail,omitempty"`
	Witness   []string `json:"witness,omitempty"`
	Known     bool     `json:"known_finding,omitempty"`
}

// Key identifies an obligation for known-findings matching.
func (o *Obligation) Key() string { return o.Rule + "|" + o.Construct }

// Ctx is handed to a property's rule function.
type Ctx struct {
	Prog     *load.Program
	Property string
	Tier     string

	Obligations []*Obligation
	Errors      []string
	Stats       map[string]int
	RuleDocs    map[string]string
	NotDecided  []string
	Assumptions []string
	SelfTest    *SelfTest
	aliases     map[string]string
}

// Alias makes obligations recorded under rule id `from` appear under `to` (a rule shared between
// two properties is reported under each property's own id). Alias(from, "") removes it.
func (c *Ctx) Alias(from, to string) {
	if c.aliases == nil {
		c.aliases = map[string]string{}
	}
	if to == "" {
		delete(c.aliases, from)
		return
	}
	c.aliases[from] = to
}

// Drop removes every obligation, rule text and counter recorded under the given rule id.
func (c *Ctx) Drop(rule string) {
	var keep []*Obligation
	for _, o := range c.Obligations {
		if o.Rule != rule {
			keep = append(keep, o)
		}
	}
	c.Obligations = keep
	delete(c.RuleDocs, rule)
	for k := range c.Stats {
		if strings.HasPrefix(k, rule+":") {
			delete(c.Stats, k)
		}
	}
	var errs []string
	for _, e := range c.Errors {
		if !strings.HasPrefix(e, rule+":") {
			errs = append(errs, e)
		}
	}
	c.Errors = errs
}

func (c *Ctx) ruleID(id string) string {
	if a, ok := c.aliases[id]; ok {
		return a
	}
	return id
}

// NewCtx creates a context.
func NewCtx(p *load.Program, property, tier string) *Ctx {
	return &Ctx{Prog: p, Property: property, Tier: tier, Stats: map[string]int{}, RuleDocs: map[string]string{}}
}

// Rule registers the template text of a rule (for evidence).
func (c *Ctx) Rule(id, doc string) { c.RuleDocs[c.ruleID(id)] = doc }

func (c *Ctx) add(rule, construct string, v Verdict, pos, detail string, witness []string) *Obligation {
	o := &Obligation{Rule: c.ruleID(rule), Construct: construct, Verdict: v, Pos: pos, Detail: detail, Witness: witness}
	c.Obligations = append(c.Obligations, o)
	return o
}

// Discharge records a discharged obligation.
func (c *Ctx) Discharge(rule, construct, pos, detail string) {
	c.add(rule, construct, Discharged, pos, detail, nil)
}

// Violate records a violated obligation.
func (c *Ctx) Violate(rule, construct, pos, detail string, witness ...string) {
	c.add(rule, construct, Violated, pos, detail, witness)
}

// Check records discharged or violated depending on ok.
func (c *Ctx) Check(ok bool, rule, construct, pos, okDetail, badDetail string, witness ...string) bool {
	if ok {
		c.Discharge(rule, construct, pos, okDetail)
	} else {
		c.Violate(rule, construct, pos, badDetail, witness...)
	}
	return ok
}

// Undecide records an obligation the analysis could not classify (checker error).
func (c *Ctx) Undecide(rule, construct, pos, detail string) {
	c.add(rule, construct, Undecided, pos, detail, nil)
}

// Errorf records a checker error (anchor unresolved, vacuity guard, analysis failure).
func (c *Ctx) Errorf(format string, a ...any) {
	c.Errors = append(c.Errors, fmt.Sprintf(format, a...))
}

// RequireCount is the vacuity guard: the subject of a rule must match at least min constructs.
func (c *Ctx) RequireCount(rule, what string, got, min int) bool {
	rule = c.ruleID(rule)
	c.Stats[rule+":"+what] = got
	if got < min {
		c.Errorf("%s: vacuity guard: %s matched %d construct(s), expected at least %d (confirmed by hand)", rule, what, got, min)
		return false
	}
	return true
}

// Count adds to a statistics counter.
func (c *Ctx) Count(name string, n int) { c.Stats[name] += n }

// ---------------------------------------------------------------------------------------

// Finding is an entry of known_findings.json.
type Finding struct {
	Property string `json:"property"`
	Key      string `json:"key"`
	Status   string `json:"status"` // open | fixed
	Commit   string `json:"commit,omitempty"`
	What     string `json:"what"`
}

// LoadFindings reads known_findings.json (missing file = none).
func LoadFindings(verif string) ([]Finding, error) {
	b, err := os.ReadFile(filepath.Join(verif, "known_findings.json"))
	if os.IsNotExist(err) {
		return nil, nil
	}
	if err != nil {
		return nil, err
	}
	var doc struct {
		Findings []Finding `json:"findings"`
	}
	if err := json.Unmarshal(b, &doc); err != nil {
		return nil, fmt.Errorf("known_findings.json: %w", err)
	}
	return doc.Findings, nil
}

// ---------------------------------------------------------------------------------------

// Outcome of a finished check.
type Outcome struct {
	ExitCode   int
	Violations []*Obligation
	Known      []*Obligation
}

// SelfTest results (thorough tier) are added to the evidence.
type SelfTest struct {
	Total   int      `json:"mutants_total"`
	Killed  int      `json:"mutants_killed"`
	Skipped int      `json:"mutants_skipped"`
	Details []string `json:"mutants"`
}

// Finish matches violations against known findings, writes evidence and replay files,
// prints the interface lines and returns the exit code.
func (c *Ctx) Finish(verif string, start time.Time, seed int, explanation string) int {
	findings, ferr := LoadFindings(verif)
	if ferr != nil {
		c.Errorf("%v", ferr)
	}
	open := map[string]Finding{}
	for _, f := range findings {
		if f.Property == c.Property && f.Status == "open" {
			open[f.Key] = f
		}
	}
	var viol, known, undecided []*Obligation
	discharged := 0
	distinct := map[string]bool{}
	for _, o := range c.Obligations {
		distinct[o.Key()] = true
		switch o.Verdict {
		case Discharged:
			discharged++
		case Violated:
			if _, ok := open[o.Key()]; ok {
				o.Known = true
				known = append(known, o)
			} else {
				viol = append(viol, o)
			}
		case Undecided:
			undecided = append(undecided, o)
		}
	}
	for _, o := range undecided {
		c.Errorf("undecided: %s at %s: %s", o.Key(), o.Pos, o.Detail)
	}
	if len(c.Obligations) == 0 {
		c.Errorf("no obligations were generated")
	}

	// samples: violations first, then a spread of discharged obligations per rule
	var samples []any
	perRule := map[string]int{}
	for _, o := range append(append([]*Obligation{}, viol...), known...) {
		samples = append(samples, o)
	}
	for _, o := range c.Obligations {
		if o.Verdict == Discharged && perRule[o.Rule] < 2 && len(samples) < 40 {
			perRule[o.Rule]++
			samples = append(samples, o)
		}
	}
	ruleIDs := make([]string, 0, len(c.RuleDocs))
	for id := range c.RuleDocs {
		ruleIDs = append(ruleIDs, id)
	}
	sort.Strings(ruleIDs)
	var ruleText []string
	for _, id := range ruleIDs {
		ruleText = append(ruleText, id+": "+c.RuleDocs[id])
	}

	replayPath := filepath.Join(verif, "evidence", "replay", c.Property+".json")
	exit := 0
	// violations take precedence over checker errors: a change that both breaks a rule and
	// removes an anchor must still be reported as a violation
	if len(c.Errors) > 0 {
		exit = 2
	}
	if len(viol) > 0 {
		exit = 1
	}

	cov := map[string]any{
		"explanation": explanation,
		"rule": "one obligation per (rule, construct) pair; constructs are resolved by role from the type-checked " +
			"source of /repo's working tree; an obligation is non-trivial when its rule matched a construct. Rules: " +
			strings.Join(ruleText, " || "),
		"evaluations":         len(c.Obligations),
		"distinct_nontrivial": len(distinct),
		"obligations":         len(c.Obligations),
		"discharged":          discharged,
		"violated":            len(viol),
		"known_findings":      len(known),
		"undecided":           len(undecided),
		"checker_errors":      c.Errors,
		"samples":             samples,
		"stats":               c.Stats,
		"not_decided":         c.NotDecided,
		"packages_loaded":     len(c.Prog.Module),
		"checker_cmd":         fmt.Sprintf("./bin/egverify -property %s -tier %s", c.Property, c.Tier),
		"trusted_base": []string{"go/types", "golang.org/x/tools v0.29.0 (go/packages, go/cfg, go/ssa)",
			"stubs/quic-go (type-level http3 stub)", "verif/internal/flow engine"},
		"exhaustive": false,
	}
	if c.SelfTest != nil {
		cov["selftest"] = c.SelfTest
	}
	// per-rule summary: template text, obligations, discharged
	perRuleSummary := map[string]any{}
	for _, id := range ruleIDs {
		n, dch, kn := 0, 0, 0
		for _, o := range c.Obligations {
			if o.Rule == id {
				n++
				if o.Verdict == Discharged {
					dch++
				}
				if o.Known {
					kn++
				}
			}
		}
		perRuleSummary[id] = map[string]any{"template": c.RuleDocs[id], "obligations": n, "discharged": dch, "known_findings": kn}
	}
	cov["rules"] = perRuleSummary
	ev := map[string]any{
		"property_id": c.Property,
		"tier":        c.Tier,
		"seed":        seed,
		"level":       "other",
		"coverage":    cov,
		"assumptions": append([]string{
			"static analysis of non-test production code under default build tags (linux/amd64)",
			"statically resolved in-module callees do not panic unless a rule declares them may-panic",
			"goroutine interleavings are not explored; lock/atomic discipline is checked, not schedules",
		}, c.Assumptions...),
		"wall_s":     time.Since(start).Seconds(),
		"violations": len(viol),
	}
	if os.Getenv("VERIF_NO_EVIDENCE") != "" {
		// sub-run of the self-test: report only
	} else if err := os.MkdirAll(filepath.Join(verif, "evidence", "replay"), 0o755); err == nil {
		b, _ := json.MarshalIndent(ev, "", " ")
		if err := os.WriteFile(filepath.Join(verif, "evidence", c.Property+".json"), append(b, '\n'), 0o644); err != nil {
			fmt.Fprintln(os.Stderr, "evidence:", err)
			exit = 2
		}
		if len(viol) > 0 {
			rb, _ := json.MarshalIndent(map[string]any{"property": c.Property, "tier": c.Tier, "violations": viol}, "", " ")
			_ = os.WriteFile(replayPath, append(rb, '\n'), 0o644)
		} else {
			_ = os.Remove(replayPath)
		}
	}

	fmt.Printf("egverify property=%s tier=%s packages=%d obligations=%d discharged=%d violated=%d known=%d undecided=%d errors=%d wall=%.1fs\n",
		c.Property, c.Tier, len(c.Prog.Module), len(c.Obligations), discharged, len(viol), len(known), len(undecided), len(c.Errors), time.Since(start).Seconds())
	for _, id := range ruleIDs {
		n, d := 0, 0
		for _, o := range c.Obligations {
			if o.Rule == id {
				n++
				if o.Verdict == Discharged {
					d++
				}
			}
		}
		fmt.Printf("  %-9s %d/%d discharged  — %s\n", id, d, n, firstLine(c.RuleDocs[id]))
	}
	for _, o := range known {
		f := open[o.Key()]
		fmt.Printf("KNOWN-FINDING: property=%s %s [%s at %s]\n", c.Property, f.What, o.Key(), o.Pos)
	}
	// listed-open findings that no longer reproduce are reported (informational)
	for k, f := range open {
		hit := false
		for _, o := range known {
			if o.Key() == k {
				hit = true
			}
		}
		if !hit {
			fmt.Printf("note: known finding %q no longer reproduces (%s)\n", k, f.What)
		}
	}
	for _, o := range viol {
		fmt.Printf("violated: %s at %s: %s\n", o.Key(), o.Pos, o.Detail)
		for _, w := range o.Witness {
			fmt.Printf("    path: %s\n", w)
		}
	}
	for _, e := range c.Errors {
		fmt.Printf("CHECKER-ERROR: %s\n", e)
	}
	if len(viol) > 0 && exit == 1 {
		fmt.Printf("VIOLATION property=%s replay=%s\n", c.Property, replayPath)
	}
	return exit
}

func firstLine(s string) string {
	if i := strings.IndexByte(s, '\n'); i >= 0 {
		s = s[:i]
	}
	if r := []rune(s); len(r) > 110 {
		s = string(r[:107]) + "..."
	}
	return s
}
