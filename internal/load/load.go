// Package load type-checks /repo's current working tree for static analysis.
//
// pkg/object/httpserver does not compile in the pinned baseline (quic-go v0.27.2 refuses
// Go >= 1.19); the loader therefore supplies a type-level stub of quic-go/http3 through an
// alternative go.mod (-modfile) that is regenerated from /repo/go.mod on every run.
package load

import (
	"fmt"
	"go/ast"
	"go/token"
	"go/types"
	"os"
	"path/filepath"
	"sort"
	"strings"

	"golang.org/x/tools/go/packages"
	"golang.org/x/tools/go/ssa"
	"golang.org/x/tools/go/ssa/ssautil"
)

// ModulePath is the import-path prefix of the analysed module.
const ModulePath = "github.com/megaease/easegress"

// Program is the loaded, type-checked program.
type Program struct {
	RepoDir string
	Fset    *token.FileSet
	// All packages reachable from the module's packages, keyed by import path.
	All map[string]*packages.Package
	// Module packages only (import path has the module prefix), sorted by path.
	Module []*packages.Package

	ssaProg *ssa.Program
	ssaPkgs map[*types.Package]*ssa.Package
}

// RepoDir returns the directory analysed (env VERIF_REPO overrides /repo; used only by
// the self-test, which analyses scratch copies).
func RepoDir() string {
	if d := os.Getenv("VERIF_REPO"); d != "" {
		return d
	}
	return "/repo"
}

// VerifDir returns the directory holding the verification machinery.
func VerifDir() string {
	if d := os.Getenv("VERIF_HOME"); d != "" {
		return d
	}
	exe, err := os.Executable()
	if err == nil {
		// <verif>/bin/egverify
		d := filepath.Dir(filepath.Dir(exe))
		if _, err := os.Stat(filepath.Join(d, "stubs", "quic-go", "go.mod")); err == nil {
			return d
		}
	}
	return "/verif"
}

func writeAltMod(repo, verif string) (string, error) {
	work := filepath.Join(verif, ".work", fmt.Sprintf("mod-%d", os.Getpid()))
	if err := os.MkdirAll(work, 0o755); err != nil {
		return "", err
	}
	mod, err := os.ReadFile(filepath.Join(repo, "go.mod"))
	if err != nil {
		return "", err
	}
	stub := filepath.Join(verif, "stubs", "quic-go")
	alt := string(mod) + "\nreplace github.com/lucas-clemente/quic-go => " + stub + "\n"
	if err := os.WriteFile(filepath.Join(work, "alt.mod"), []byte(alt), 0o644); err != nil {
		return "", err
	}
	sum, err := os.ReadFile(filepath.Join(repo, "go.sum"))
	if err != nil {
		return "", err
	}
	if err := os.WriteFile(filepath.Join(work, "alt.sum"), sum, 0o644); err != nil {
		return "", err
	}
	return work, nil
}

// Load loads every package of the module (non-test files, default build tags).
func Load() (*Program, error) {
	repo := RepoDir()
	verif := VerifDir()
	work, err := writeAltMod(repo, verif)
	if err != nil {
		return nil, fmt.Errorf("alt.mod: %w", err)
	}
	defer os.RemoveAll(work)

	env := []string{}
	for _, e := range os.Environ() {
		k := strings.SplitN(e, "=", 2)[0]
		switch k {
		case "GOFLAGS", "GOPROXY", "GOSUMDB", "GOWORK", "GOTOOLCHAIN", "GO111MODULE":
			continue
		}
		env = append(env, e)
	}
	env = append(env, "GOFLAGS=-mod=mod", "GOPROXY=off", "GOSUMDB=off", "GOWORK=off",
		"GOTOOLCHAIN=local", "GO111MODULE=on")

	fset := token.NewFileSet()
	overlay, err := overlayFromEnv(repo)
	if err != nil {
		return nil, err
	}
	cfg := &packages.Config{
		Mode:       packages.LoadAllSyntax,
		Dir:        repo,
		Fset:       fset,
		Env:        env,
		BuildFlags: []string{"-modfile=" + filepath.Join(work, "alt.mod")},
		Tests:      false,
		Overlay:    overlay,
	}
	roots, err := packages.Load(cfg, "./...")
	if err != nil {
		return nil, fmt.Errorf("packages.Load: %w", err)
	}
	p := &Program{RepoDir: repo, Fset: fset, All: map[string]*packages.Package{}}
	var errs []string
	packages.Visit(roots, nil, func(pkg *packages.Package) {
		p.All[pkg.PkgPath] = pkg
		if strings.HasPrefix(pkg.PkgPath, ModulePath) {
			for _, e := range pkg.Errors {
				errs = append(errs, e.Error())
			}
			if pkg.IllTyped {
				errs = append(errs, pkg.PkgPath+": ill-typed")
			}
		}
	})
	for _, pkg := range roots {
		if strings.HasPrefix(pkg.PkgPath, ModulePath) {
			p.Module = append(p.Module, pkg)
		}
	}
	sort.Slice(p.Module, func(i, j int) bool { return p.Module[i].PkgPath < p.Module[j].PkgPath })
	if len(errs) > 0 {
		if len(errs) > 12 {
			errs = append(errs[:12], fmt.Sprintf("... and %d more", len(errs)-12))
		}
		return nil, fmt.Errorf("module packages do not type-check:\n  %s", strings.Join(errs, "\n  "))
	}
	if len(p.Module) < 100 {
		return nil, fmt.Errorf("only %d module packages loaded (expected >= 100)", len(p.Module))
	}
	return p, nil
}

// ErrOverlaySkipped is returned when a self-test mutant's old fragment does not occur
// (exactly once) in the file any more.
var ErrOverlaySkipped = fmt.Errorf("overlay: old fragment not found exactly once")

// overlayFromEnv builds a go/packages overlay from VERIF_OVERLAY_FILE (path relative to the
// repository), VERIF_OVERLAY_OLD and VERIF_OVERLAY_NEW: the self-test applies one seeded
// mutant without copying the repository.
func overlayFromEnv(repo string) (map[string][]byte, error) {
	rel := os.Getenv("VERIF_OVERLAY_FILE")
	if rel == "" {
		return nil, nil
	}
	path := filepath.Join(repo, rel)
	b, err := os.ReadFile(path)
	if err != nil {
		return nil, ErrOverlaySkipped
	}
	old, new := os.Getenv("VERIF_OVERLAY_OLD"), os.Getenv("VERIF_OVERLAY_NEW")
	if strings.Count(string(b), old) != 1 {
		return nil, ErrOverlaySkipped
	}
	return map[string][]byte{path: []byte(strings.Replace(string(b), old, new, 1))}, nil
}

// Pkg returns the module package with the given path relative to the module root
// (e.g. "pkg/object/httpserver"), or nil.
func (p *Program) Pkg(rel string) *packages.Package {
	return p.All[ModulePath+"/"+rel]
}

// SSA builds (once) and returns the SSA program for all loaded packages.
func (p *Program) SSA() (*ssa.Program, map[*types.Package]*ssa.Package) {
	if p.ssaProg != nil {
		return p.ssaProg, p.ssaPkgs
	}
	var initial []*packages.Package
	for _, pkg := range p.Module {
		initial = append(initial, pkg)
	}
	prog, _ := ssautil.AllPackages(initial, ssa.InstantiateGenerics)
	prog.Build()
	p.ssaProg = prog
	p.ssaPkgs = map[*types.Package]*ssa.Package{}
	for _, sp := range prog.AllPackages() {
		p.ssaPkgs[sp.Pkg] = sp
	}
	return p.ssaProg, p.ssaPkgs
}

// Rel renders a position as a path relative to the repository root plus line.
func (p *Program) Rel(pos token.Pos) string {
	if !pos.IsValid() {
		return "?"
	}
	ps := p.Fset.Position(pos)
	f := ps.Filename
	if r, err := filepath.Rel(p.RepoDir, f); err == nil && !strings.HasPrefix(r, "..") {
		f = r
	}
	return fmt.Sprintf("%s:%d", f, ps.Line)
}

// FuncDecl finds a function or method declaration in a module package.
// recv is "" for functions, otherwise the receiver's named type (without '*').
func (p *Program) FuncDecl(rel, recv, name string) (*packages.Package, *ast.FuncDecl) {
	pkg := p.Pkg(rel)
	if pkg == nil {
		return nil, nil
	}
	for _, f := range pkg.Syntax {
		for _, d := range f.Decls {
			fd, ok := d.(*ast.FuncDecl)
			if !ok || fd.Name.Name != name {
				continue
			}
			if recv == "" && fd.Recv == nil {
				return pkg, fd
			}
			if recv != "" && fd.Recv != nil && len(fd.Recv.List) == 1 && RecvName(fd.Recv.List[0].Type) == recv {
				return pkg, fd
			}
		}
	}
	return pkg, nil
}

// RecvName returns the receiver's type name, stripping '*' and type parameters.
func RecvName(e ast.Expr) string {
	for {
		switch t := e.(type) {
		case *ast.StarExpr:
			e = t.X
		case *ast.ParenExpr:
			e = t.X
		case *ast.IndexExpr:
			e = t.X
		case *ast.IndexListExpr:
			e = t.X
		case *ast.Ident:
			return t.Name
		default:
			return ""
		}
	}
}
